package main

import (
	"bufio"
	"fmt"
	"os"
	"sort"
	"strings"

	"github.com/AdguardTeam/urlfilter"
	"github.com/AdguardTeam/urlfilter/filterlist"
	"github.com/AdguardTeam/urlfilter/rules"
)

// C12: parsing and matching never crash; comments and rejected lines are inert.
//
// case "line":   line TAB <line hex> TAB <request>;<request>;...
//   obs: none | E | <kind>:<text hex>:<list id>:<match results>   (P:<msg> on a panic; !flags)
// case "list":   list TAB <lines> TAB <mask: 1 = noise line> TAB <requests>
//   obs: texts of the rules the storage scanner yields for the full list
//        [+ !flags: results of the three engines differ between the list with and without noise,
//           or with CRLF line endings; panics]

var realLines []string

func loadRealLines() {
	if realLines != nil {
		return
	}
	for _, fn := range []string{"/repo/testdata/easylist.txt", "/repo/testdata/adguard_sdn_filter.txt", "/repo/testdata/hosts"} {
		f, err := os.Open(fn)
		if err != nil {
			continue
		}
		sc := bufio.NewScanner(f)
		sc.Buffer(make([]byte, 1<<20), 1<<20)
		i := 0
		for sc.Scan() {
			i++
			if i%7 == 0 {
				realLines = append(realLines, sc.Text())
			}
		}
		_ = f.Close()
	}
	if len(realLines) == 0 {
		realLines = []string{"||example.org^", "example.org##.ad", "0.0.0.0 example.org"}
	}
}

var cosmeticLines = []string{
	"##.ad", "example.org##.banner", "example.org,~sub.example.org##.x", "example.org#@#.banner", "#@#.generic-exception",
	"example.*##.wild", "~example.org##.notthere", "example.org#$#body { color: red }", "example.org#%#alert(1)", "example.org$$script[x]",
	"example.org#?#div:has(a)", "#", "##", "# comment", "#comment", "! comment", "!", "example.org## ", "bad domain##x",
}

func genAnyLine(g *Gen) string {
	loadRealLines()
	var l string
	switch g.Intn(10) {
	case 0, 1, 2:
		l = Pick(g, realLines)
	case 3:
		l = Pick(g, cosmeticLines)
	case 4:
		l, _, _ = genHostsLine(g)
	case 5:
		l = Pick(g, []string{"", " ", "\t", "!", "! x", "#", "# x", "@@", "$", "|", "||", "*", "^", "/", "//", "a", "ab", "$$", "@@$", "@@|", "||^", "/a/", "/[/", "\\", "$domain=", "a$", "$,", "a$,,", "@@a$~", "a$~script", "a$=", "a$=x"})
	default:
		l = genNetworkRule(g)
	}
	if g.Chance(1, 3) {
		l = mutate(g, l)
	}
	if g.Chance(1, 12) {
		l = Pick(g, []string{" ", "\t", "\r", "\v", "\f", "  \t"}) + l + Pick(g, []string{" ", "\r", "\t \r", ""})
	}
	if g.Chance(1, 40) {
		l += Pick(g, []string{"\x00", "\xff", "é", " ", " ", "реклама", "\xc2"})
	}
	return l
}

func engineSnapshot(lists []filterlist.RuleList, reqs []Req) (string, bool) {
	var sb strings.Builder
	panicked, _ := protect(func() {
		s, err := filterlist.NewRuleStorage(lists)
		must(err)
		ne := urlfilter.NewNetworkEngine(s)
		de := urlfilter.NewDNSEngine(s)
		ce := urlfilter.NewCosmeticEngine(s)
		for _, r := range reqs {
			q := buildRequest(r)
			m := ne.MatchAll(q)
			t := make([]string, len(m))
			for i, x := range m {
				t[i] = x.RuleText
			}
			sort.Strings(t)
			sb.WriteString(strings.Join(t, "\x01") + "\x02")
			if b, ok := ne.Match(q); ok && b != nil {
				sb.WriteString("B" + b.RuleText)
			}
			sb.WriteString("\x02")
			host := q.Hostname
			res, ok := de.MatchRequest(&urlfilter.DNSRequest{Hostname: host, ClientName: r.ClientName, DNSType: r.DNSType, SortedClientTags: r.Tags})
			if res != nil {
				// what callers do with a result: read every reported rule, ask for the effective rewrites (twice)
				for _, nr := range res.NetworkRules {
					sb.WriteString(fmt.Sprint(len(nr.RuleText)) + ",")
				}
				for k := 0; k < 2; k++ {
					for _, rw := range res.DNSRewritesAll() {
						sb.WriteString("A" + rw.RuleText)
					}
					for _, rw := range res.DNSRewrites() {
						sb.WriteString("R" + rw.RuleText)
					}
				}
				sb.WriteString("\x02")
				d := []string{fmt.Sprint(ok)}
				if res.NetworkRule != nil {
					d = append(d, "N"+res.NetworkRule.RuleText)
				}
				for _, h := range res.HostRulesV4 {
					d = append(d, "4"+h.RuleText)
				}
				for _, h := range res.HostRulesV6 {
					d = append(d, "6"+h.RuleText)
				}
				sort.Strings(d)
				sb.WriteString(strings.Join(d, "\x01") + "\x02")
			}
			c := ce.Match(host, true, true, true)
			e := append(append([]string{}, c.ElementHiding.Generic...), c.ElementHiding.Specific...)
			sort.Strings(e)
			sb.WriteString(strings.Join(e, "\x01") + "\x03")
		}
	})
	return sb.String(), panicked
}

func init() {
	register("c12", &Prop{
		Gen: func(g *Gen, tier string, emit func(string)) {
			n, nl := 40000, 400
			if tier == "thorough" {
				n, nl = 1500000, 12000
			}
			for i := 0; i < n; i++ {
				l := genAnyLine(g)
				if strings.ContainsAny(l, "\n") {
					l = strings.ReplaceAll(l, "\n", "")
				}
				var rs []string
				if i%40 == 7 {
					// wildcard-TLD values against hosts that are public suffixes themselves, one label, or shorter than the
					// value: every computed slice bound must be in range
					nm, host := wildcardInSuffix(g)
					l = Pick(g, []string{"||x.org^$domain=" + nm + ".*", "*$domain=~" + nm + ".*", "/ad$denyallow=" + nm + ".*,domain=x.org", nm + ".*##.banner", "~" + nm + ".*##.b", "||x.org^$domain=" + nm + ".*|y.org"})
					for _, hst := range []string{host, strings.TrimPrefix(host, nm+"."), nm, "x." + host} {
						rs = append(rs, Req{Kind: "url", URL: "http://" + Pick(g, []string{"x.org", hst}) + "/ad", Source: "http://" + hst + "/", Type: 4}.Encode(), Req{Kind: "host", Hostname: hst}.Encode())
					}
				}
				for j := 0; j < 2; j++ {
					rs = append(rs, coupledReq(g, l).Encode())
				}
				emit("line\t" + hx(l) + "\t" + strings.Join(rs, "|"))
			}
			for i := 0; i < nl; i++ {
				k := 3 + g.Intn(25)
				var lines []string
				var mask []byte
				for j := 0; j < k; j++ {
					if g.Chance(1, 3) {
						// noise: blank, comment, or a line the parser rejects
						cand := Pick(g, []string{"", "   ", "! comment", "# comment", "#", "!", "\t", "||", "a", "||example.org^$unknown", "example.org#$#x", "@@", "||a^$domain=", "bad domain##x", "#@#.x", "$$"})
						if g.Chance(1, 8) {
							// a comment or a rejected line longer than the scanner's 4096-byte buffer whose tail would parse as a
							// rule on its own; the line is inert as a whole
							cand = Pick(g, []string{"! ", "# ", "||a^$unknown="}) + strings.Repeat("x", 4070+g.Intn(60)) + Pick(g, []string{"||", " ", "/"}) + Pick(g, hostPool) + "^"
						}
						if r, err := rules.NewRule(cand, 1); r == nil || err != nil {
							lines = append(lines, cand)
							mask = append(mask, '1')
							continue
						}
					}
					l := genAnyLine(g)
					l = strings.NewReplacer("\n", "", "\r", "").Replace(l)
					lines = append(lines, l)
					mask = append(mask, '0')
				}
				twinHost := ""
				if g.Chance(1, 3) {
					// a rule and a $badfilter rule that is its twin except for ONE more modifier (each side may lack what the
					// other carries): building results compares the two field by field
					h := Pick(g, hostPool)
					pat := Pick(g, []string{"||" + h + "^", "@@||" + h + "^", "||" + h + "^$important", "||" + h + "^$dnstype=A"})
					extra := Pick(g, []string{"client=~10.0.0.1", "client=Mom", "client=10.0.0.0/8", "ctag=~device_pc", "ctag=device_tv", "dnstype=~MX", "denyallow=x.com", "domain=~x.org", "dnsrewrite=1.2.3.4"})
					twin := pat + "$" + extra + ",badfilter"
					if strings.Contains(pat, "$") {
						twin = pat + "," + extra + ",badfilter"
					}
					pair := []string{pat, twin}
					if g.Bool() {
						// the other asymmetry: the plain rule carries the modifier, the badfilter rule does not
						pair = []string{strings.TrimSuffix(twin, ",badfilter"), withBadfilter(pat)}
					}
					for _, t := range pair {
						at := g.Intn(len(lines) + 1)
						lines = append(lines[:at], append([]string{t}, lines[at:]...)...)
						mask = append(mask[:at], append([]byte{'0'}, mask[at:]...)...)
					}
					twinHost = h
				}
				var rs []string
				if twinHost != "" {
					// requests both rules of the pair match (no client, a client, the record type of the pattern)
					rs = append(rs, Req{Kind: "host", Hostname: twinHost}.Encode(), Req{Kind: "host", Hostname: twinHost, DNSType: 1, ClientName: "Mom", ClientIP: "10.1.2.3", Tags: []string{"device_tv"}}.Encode(),
						Req{Kind: "url", URL: "http://" + twinHost + "/", Source: "http://x.org/", Type: 4}.Encode())
				}
				for j := 0; j < 6; j++ {
					rq := coupledReq(g, Pick(g, lines))
					if g.Chance(1, 6) {
						// code points whose lower-case form is shorter or longer in UTF-8 (Kelvin, Ohm, Angstrom, capital
						// sharp s, dotted capital I), in the URL, the source and the hostname
						odd := Pick(g, []string{"\u212a", "\u2126", "\u212b", "\u1e9e", "\u0130", "\u212aelvin\u212a", "\u023a\u023e"})
						switch g.Intn(3) {
						case 0:
							rq.URL += "/" + odd + Pick(g, []string{"", "ads", "/banner.png"})
						case 1:
							rq.URL = strings.Replace(rq.URL, "://", "://"+odd+".", 1)
							rq.Hostname = odd + "." + rq.Hostname
						default:
							rq.Source = "http://" + odd + ".example.org/" + odd
						}
					}
					rs = append(rs, rq.Encode())
				}
				emit("list\t" + encList(lines) + "\t" + string(mask) + "\t" + strings.Join(rs, "|"))
			}
		},
		Run: func(line string, st *Stats) (string, string, bool) {
			f := strings.Split(line, "\t")
			if f[0] == "line" {
				text := unhx(f[1])
				var r rules.Rule
				var err error
				if p, msg := protect(func() { r, err = rules.NewRule(text, 11) }); p {
					st.Inc("panic")
					return "P:" + msg, line, true
				}
				if err != nil {
					st.Inc("rejected")
					return "E", line, false
				}
				if r == nil {
					st.Inc("none")
					return "none", line, false
				}
				flags := ""
				if r.Text() != strings.TrimSpace(text) {
					flags += "!TEXT"
				}
				if r.GetFilterListID() != 11 {
					flags += "!ID"
				}
				kind := map[string]string{"*rules.NetworkRule": "N", "*rules.HostRule": "H", "*rules.CosmeticRule": "C"}[fmt.Sprintf("%T", r)]
				st.Inc("kind_" + kind)
				// every request against the rule, under recover
				m := ""
				var pslParts []string
				for _, rq := range strings.Split(f[2], "|") {
					req := decodeReq(rq)
					q := buildRequest(req)
					pslParts = append(pslParts, pslTable(q))
					var ok bool
					p, _ := protect(func() {
						switch v := r.(type) {
						case *rules.NetworkRule:
							ok = v.Match(q)
						case *rules.HostRule:
							ok = v.Match(q.Hostname)
						case *rules.CosmeticRule:
							ok = v.Match(q.Hostname)
						}
					})
					if p {
						m += "P"
						flags += "!PANIC-IN-MATCH"
					} else {
						m += b01(ok)
					}
				}
				return kind + ":" + hx(r.Text()) + ":" + fmt.Sprint(r.GetFilterListID()) + ":" + m + flags, line + "\t" + strings.Join(pslParts, "|"), true
			}
			lines := decList(f[1])
			mask := f[2]
			var reqs []Req
			for _, rq := range strings.Split(f[3], "|") {
				reqs = append(reqs, decodeReq(rq))
			}
			var base []string
			for i, l := range lines {
				if mask[i] == '0' {
					base = append(base, l)
				}
			}
			mk := func(ls []string, eol string) []filterlist.RuleList {
				return []filterlist.RuleList{&filterlist.StringRuleList{ID: 3, RulesText: strings.Join(ls, eol) + eol}}
			}
			full, p1 := engineSnapshot(mk(lines, "\n"), reqs)
			clean, p2 := engineSnapshot(mk(base, "\n"), reqs)
			crlf, p3 := engineSnapshot(mk(lines, "\r\n"), reqs)
			flags := ""
			if p1 || p2 || p3 {
				flags += "!PANIC-IN-ENGINE"
			}
			if full != clean {
				flags += "!NOISE-CHANGED-RESULTS"
			}
			if full != crlf {
				flags += "!CRLF-CHANGED-RESULTS"
			}
			// the same list from a file, with and without a final line break (an editor may or may not write one)
			for _, tail := range []string{"", "\n"} {
				tf, terr := os.CreateTemp("", "c12list")
				must(terr)
				_, _ = tf.WriteString(strings.Join(lines, "\n") + tail)
				_ = tf.Close()
				fl, ferr := filterlist.NewFileRuleList(3, tf.Name(), false)
				must(ferr)
				fsnap, pf := engineSnapshot([]filterlist.RuleList{fl}, reqs)
				_ = fl.Close()
				_ = os.Remove(tf.Name())
				if pf {
					flags += "!PANIC-IN-ENGINE"
				}
				if fsnap != full {
					flags += "!FILE-BACKED-LIST-CHANGED-RESULTS:final-newline=" + b01(tail != "")
				}
			}
			// the scan sequence of the full list
			var texts []string
			s, err := filterlist.NewRuleStorage(mk(lines, "\n"))
			must(err)
			sc := s.NewRuleStorageScanner()
			for sc.Scan() {
				r, _ := sc.Rule()
				texts = append(texts, r.Text())
			}
			st.Inc("list")
			st.Add("noise_lines", strings.Count(mask, "1"))
			return encList(texts) + flags, line, true
		},
	})
}
