package main

import (
	"fmt"
	"sort"
	"strings"
)

// Shared vocabulary: rule and request generators draw from the same pools so
// that most requests hit several rules.

var hostPool = []string{
	"example.org", "example.com", "sub.example.org", "a.b.example.org", "example.net",
	"ads.example.net", "tracker.io", "cdn.tracker.io", "test.com", "www.test.com",
	"foo.co.uk", "a.foo.co.uk", "user.github.io", "github.io", "www.ck", "foo.bar.ck",
	"city.kawasaki.jp", "x.city.kawasaki.jp", "localhost", "google.com", "google.co.uk",
	"www.google.de", "notgoogle.com", "a.google.b.notgoogle.com", "xn--e1afmkfd.xn--p1ai",
	"1.2.3.4", "doubleclick.net", "ad.doubleclick.net", "evil.org", "good.evil.org",
	// names made of hexadecimal digits and dots only: they look like addresses to a character-class test, they are not
	"abc.de", "cafe.abc.de", "decade.cafe",
}

var wildcardDomains = []string{"google.*", "example.*", "foo.*", "www.google.*", "tracker.*"}

var pathPool = []string{
	"/", "/ads/", "/ads/banner.png", "/banner", "/track.js", "/img/ad-300x250.png", "/a/b/c",
	"/index.html", "/script.js?ad=1", "/?q=ads&x=1", "/path/to/file.swf", "/AdS/Banner", "/p$x",
	"/a(b)c", "/x.y+z", "/q?a[1]=2", "/w|v", "/caret^here", "/star*x", "/%20space", "/_under-score.",
}

var fragPool = []string{
	"ads", "banner", "track", "ad-300x250", "/ads/", ".js", ".png", "swf", "index", "script",
	"adserver", "analytics", "pixel", "promo", "click", "q=ads", "AdS", "x.y", "a(b)", "a+b", "$x", "[1]",
}

var clientNames = []string{"Mom", "Dad", "Kids", "Frank's laptop", "Mary's, John's", "a|b", `q"uote`, "pc-1", "laptop", "192.168.1.300"}

var clientIPs = []string{
	"127.0.0.1", "192.168.1.5", "192.168.1.77", "10.1.2.3", "172.16.5.4", "8.8.8.8",
	"::1", "fe80::1", "2001:db8::1", "2001:db8:1::5", "::ffff:1.2.3.4", "1.2.3.4",
}

var clientNets = []string{
	"192.168.1.0/24", "192.168.0.0/16", "10.0.0.0/8", "0.0.0.0/0", "192.168.1.5/32", "172.16.5.4/30",
	"fe80::/10", "2001:db8::/32", "::/0", "::1/128", "2001:db8:1::/48", "192.168.1.77/25",
}

var tagPool = []string{"device_pc", "device_phone", "device_tv", "user_child", "user_admin", "os_linux", "os_windows", "a", "b", "zz"}

var dnsTypeNames = []string{"A", "AAAA", "CNAME", "MX", "TXT", "HTTPS", "SRV", "PTR", "NS", "SOA", "ANY", "svcb", "a", "Aaaa"}

var dnsTypeCodes = []uint16{1, 28, 5, 15, 16, 65, 33, 12, 2, 6, 255, 64}

var contentTypes = []string{"script", "stylesheet", "subdocument", "object", "image", "xmlhttprequest", "media", "font", "websocket", "ping", "other"}

var rewriteValues = []string{
	"1.2.3.4", "127.0.0.1", "::1", "2001:db8::1", "example.net", "cname.example.org", "NXDOMAIN", "REFUSED", "SERVFAIL", "NOERROR",
	"NOERROR;A;1.2.3.4", "NOERROR;A;5.6.7.8", "NOERROR;AAAA;::1", "NOERROR;CNAME;example.net", "NOERROR;TXT;hello world",
	"NOERROR;MX;10 mail.example.org", "NOERROR;MX;20 mail.example.org", "NOERROR;SRV;1 2 80 srv.example.org",
	"NOERROR;HTTPS;1 . alpn=h3", "NOERROR;SVCB;2 svc.example.org port=8443 alpn=h2", "NOERROR;PTR;host.example.org",
	"NOERROR;PTR;host.example.org.", "NXDOMAIN;;", "REFUSED;;", "NOERROR;;", "NOERROR;NS;ns.example.org", "",
}

// genPattern returns a basic (mask) pattern.
func genPattern(g *Gen) string {
	h := Pick(g, hostPool)
	switch g.Intn(16) {
	case 0:
		return "||" + h + "^"
	case 1:
		return "||" + h + Pick(g, pathPool)
	case 2:
		return "|http://" + h + "/"
	case 3:
		return "|https://" + h + Pick(g, pathPool) + "|"
	case 4:
		return Pick(g, fragPool) + "|"
	case 5:
		return Pick(g, fragPool) + "*" + Pick(g, fragPool)
	case 6:
		return "*" + Pick(g, fragPool) + "^"
	case 7:
		return "||" + h + "/*"
	case 8:
		return Pick(g, fragPool)
	case 9:
		return "^" + Pick(g, fragPool) + "^"
	case 10:
		return h
	case 11:
		return "://" + h + "/"
	case 12:
		// short patterns
		return Pick(g, []string{"a", "^", "|", "||", "*", "ad", "/*", "a^", "|a", "a|", "||a", ".", "$", "||*", "*^"})
	case 13:
		// pipes in odd places
		return Pick(g, fragPool) + "|" + Pick(g, fragPool)
	case 14:
		return "||" + strings.ToUpper(h[:1]) + h[1:] + "^"
	default:
		// token soup
		n := 1 + g.Intn(5)
		var sb strings.Builder
		for i := 0; i < n; i++ {
			switch g.Intn(8) {
			case 0:
				sb.WriteString("*")
			case 1:
				sb.WriteString("^")
			case 2:
				sb.WriteString("|")
			case 3:
				sb.WriteString(Pick(g, []string{".", "+", "?", "$", "{", "}", "(", ")", "[", "]", "/", "\\", "-", "_", "%", " ", "=", "&"}))
			default:
				sb.WriteString(Pick(g, fragPool))
			}
		}
		return sb.String()
	}
}

var regexPool = []string{
	`/ads[0-9]+/`, `/banner\d+\.png/`, `/^https?:\/\/example\.(org|com)\//`, `/track(er)?\.js/`, `/(ads|banner)/`,
	`/ad-[0-9]{3}x[0-9]{2,3}/`, `/\/ads\//`, `/example\.org\/[a-z]+\.swf/`, `/foo|barbaz/`, `/abc*/`, `/a\dx\d/`,
	`/ad[0-9]{0}s/`, `/^[a-z]+:\/\/[^\/]*doubleclick\.net/`, `/index\.html$/`, `/\bads\b/`, `/AdS/`, `/x.y/`,
	`/[/`, `/(/`, `/a{2,1}/`, `/\w+\.js/`, `/script\.js\?ad=1/`, `/./`, `/ads/`, `//`, `/a/`,
}

func joinVals(g *Gen, pool []string, minN, maxN int, negChance int, sep string) string {
	n := minN + g.Intn(maxN-minN+1)
	vals := make([]string, 0, n)
	for i := 0; i < n; i++ {
		v := Pick(g, pool)
		if g.Chance(negChance, 100) {
			v = "~" + v
		}
		vals = append(vals, v)
	}
	return strings.Join(vals, sep)
}

func quoteClient(g *Gen, name string) string {
	q := Pick(g, []string{"'", `"`, ""})
	s := name
	s = strings.ReplaceAll(s, ",", `\,`)
	s = strings.ReplaceAll(s, "|", `\|`)
	if q != "" {
		s = strings.ReplaceAll(s, q, `\`+q)
	}
	return q + s + q
}

func genClientValue(g *Gen) string {
	n := 1 + g.Intn(4)
	vals := make([]string, 0, n)
	for i := 0; i < n; i++ {
		var v string
		switch g.Intn(3) {
		case 0:
			v = quoteClient(g, Pick(g, clientNames))
		case 1:
			v = Pick(g, clientIPs)
		default:
			v = Pick(g, clientNets)
		}
		if g.Chance(25, 100) {
			v = "~" + v
		}
		vals = append(vals, v)
	}
	return strings.Join(vals, "|")
}

// genModifier returns one modifier text.  kind selects a family (or -1 for any).
func genModifier(g *Gen, whitelist bool) string {
	switch g.Intn(22) {
	case 0:
		return Pick(g, []string{"third-party", "~third-party", "first-party", "~first-party"})
	case 1:
		return Pick(g, []string{"match-case", "~match-case"})
	case 2, 3:
		return "important"
	case 4, 5:
		doms := append(append([]string{}, hostPool...), wildcardDomains...)
		return "domain=" + joinVals(g, doms, 1, 4, 30, "|")
	case 6:
		return "denyallow=" + joinVals(g, hostPool, 1, 3, 0, "|")
	case 7, 8:
		t := Pick(g, contentTypes)
		if g.Chance(30, 100) {
			t = "~" + t
		}
		return t
	case 9:
		return "dnstype=" + joinVals(g, dnsTypeNames, 1, 3, 30, "|")
	case 10:
		return "ctag=" + joinVals(g, tagPool, 1, 4, 30, "|")
	case 11:
		return "client=" + genClientValue(g)
	case 12:
		return "dnsrewrite=" + strings.ReplaceAll(Pick(g, rewriteValues), ",", `\,`)
	case 13:
		return "badfilter"
	case 14:
		if whitelist {
			return Pick(g, []string{"elemhide", "generichide", "genericblock", "jsinject", "urlblock", "content", "extension", "document", "stealth", "~extension"})
		}
		return Pick(g, []string{"popup", "empty", "mp4", "document"})
	case 15:
		// wrong-kind or unknown modifiers (mostly rejected)
		return Pick(g, []string{"elemhide", "popup", "unknown", "domain=", "ctag=", "client=", "dnstype=", "denyallow=~a.com", "csp=x", "replace=/a/b/", "redirect=noop", "cookie", "domain=bad domain", "ctag=BAD", "dnstype=none", "dnstype=A|", "client=''"})
	default:
		return Pick(g, contentTypes)
	}
}

// genNetworkRule returns the text of a network rule from the modifier grammar.
func genNetworkRule(g *Gen) string {
	wl := g.Chance(30, 100)
	var pat string
	if g.Chance(12, 100) {
		pat = Pick(g, regexPool)
	} else {
		pat = genPattern(g)
	}
	n := 0
	switch r := g.Intn(10); {
	case r < 3:
		n = 0
	case r < 6:
		n = 1
	case r < 8:
		n = 2
	default:
		n = 3 + g.Intn(3)
	}
	mods := make([]string, 0, n)
	for i := 0; i < n; i++ {
		mods = append(mods, genModifier(g, wl))
	}
	txt := pat
	if wl {
		txt = "@@" + txt
	}
	if len(mods) > 0 {
		txt += "$" + strings.Join(mods, ",")
	}
	return txt
}

// mutate applies a few byte-level mutations.
func mutate(g *Gen, s string) string {
	b := []byte(s)
	n := 1 + g.Intn(3)
	for i := 0; i < n; i++ {
		switch g.Intn(5) {
		case 0:
			if len(b) > 0 {
				p := g.Intn(len(b))
				b = append(b[:p], b[p+1:]...)
			}
		case 1:
			p := g.Intn(len(b) + 1)
			c := Pick(g, []byte("$,|~=@/\\*^#! \t'\".;:-_09azAZ%[](){}+?"))
			b = append(b[:p], append([]byte{c}, b[p:]...)...)
		case 2:
			if len(b) > 0 {
				b[g.Intn(len(b))] = Pick(g, []byte("$,|~=@/\\*^#! '\".;:-a0Z"))
			}
		case 3:
			if len(b) > 1 {
				p := g.Intn(len(b) - 1)
				b[p], b[p+1] = b[p+1], b[p]
			}
		default:
			if len(b) > 2 {
				p := g.Intn(len(b))
				q := p + g.Intn(len(b)-p)
				b = append(b[:p], b[q:]...)
			}
		}
	}
	return string(b)
}

// ---- requests

// Req is a generated request (web or hostname/DNS).
type Req struct {
	Kind       string // "url" or "host"
	URL        string
	Source     string
	Type       uint32
	Hostname   string
	ClientName string
	ClientIP   string
	Tags       []string
	DNSType    uint16
}

var schemes = []string{"http", "https", "ws", "wss", "ftp", "HTTP"}

func genURL(g *Gen) string {
	h := Pick(g, hostPool)
	if g.Chance(10, 100) {
		h = strings.ToUpper(h[:1]) + h[1:]
	}
	u := Pick(g, schemes) + "://" + h
	if g.Chance(15, 100) {
		u += fmt.Sprintf(":%d", 1+g.Intn(65535))
	}
	if g.Chance(85, 100) {
		u += Pick(g, pathPool)
		if g.Chance(30, 100) {
			u += Pick(g, fragPool)
		}
	}
	return u
}

var requestTypes = []uint32{1, 2, 4, 8, 16, 32, 64, 128, 256, 512, 1024, 2048}

func genReq(g *Gen) Req {
	if g.Chance(40, 100) {
		r := Req{Kind: "host", Hostname: Pick(g, hostPool)}
		if g.Chance(40, 100) {
			r.ClientName = Pick(g, clientNames)
		}
		if g.Chance(40, 100) {
			r.ClientIP = Pick(g, clientIPs)
		}
		if g.Chance(40, 100) {
			n := 1 + g.Intn(3)
			set := map[string]bool{}
			for i := 0; i < n; i++ {
				set[Pick(g, tagPool)] = true
			}
			for t := range set {
				r.Tags = append(r.Tags, t)
			}
			sort.Strings(r.Tags)
		}
		if g.Chance(50, 100) {
			r.DNSType = Pick(g, dnsTypeCodes)
		}
		return r
	}
	r := Req{Kind: "url", URL: genURL(g), Type: Pick(g, requestTypes)}
	if g.Chance(70, 100) {
		r.Source = genURL(g)
	}
	return r
}

// Encode renders the request as case fields.
func (r Req) Encode() string {
	return strings.Join([]string{
		r.Kind, hx(r.URL), hx(r.Source), fmt.Sprint(r.Type), hx(r.Hostname), hx(r.ClientName),
		hx(r.ClientIP), encList(r.Tags), fmt.Sprint(r.DNSType),
	}, ";")
}

func decodeReq(s string) Req {
	f := strings.Split(s, ";")
	var r Req
	r.Kind = f[0]
	r.URL = unhx(f[1])
	r.Source = unhx(f[2])
	fmt.Sscan(f[3], &r.Type)
	r.Hostname = unhx(f[4])
	r.ClientName = unhx(f[5])
	r.ClientIP = unhx(f[6])
	r.Tags = decList(f[7])
	fmt.Sscan(f[8], &r.DNSType)
	return r
}
