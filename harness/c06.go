package main

import (
	"fmt"
	"strings"

	"github.com/AdguardTeam/urlfilter"
	"github.com/AdguardTeam/urlfilter/filterlist"
	"github.com/AdguardTeam/urlfilter/rules"
)

// C06: the verdict follows the documented precedence, whatever the rule order.
//
// case "web":    web TAB <matching rules> TAB <source rules>    NewMatchingResult(rules, src).GetBasicResult()
// case "dns":    dns TAB <matching rules>                       GetDNSBasicRule(rules)
// case "engine": engine TAB <list1> TAB <list2>                 rules split over two lists, Engine.MatchRequest /
//                NetworkEngine.Match / DNSEngine.MatchRequest on fixed requests; the matched rules (in engine
//                order) are handed to the model as oracle fields
// obs: <class b|a|n>:<text of the selected rule> ...  [+ !flags: verdict class under permutations]

func c06ReqRule(g *Gen) string {
	var mods []string
	wl := g.Chance(2, 5)
	if g.Chance(1, 3) {
		mods = append(mods, "important")
	}
	if g.Chance(1, 3) {
		mods = append(mods, "domain=a.org")
	} else if g.Chance(1, 5) {
		// restricted to (or away from) the page's own host
		mods = append(mods, Pick(g, []string{"domain=example.org", "domain=~example.org", "domain=example.org|a.org"}))
	}
	if g.Chance(1, 5) {
		mods = append(mods, "script")
	}
	if g.Chance(1, 8) {
		mods = append(mods, "third-party")
	}
	if g.Chance(1, 8) {
		mods = append(mods, "dnsrewrite="+Pick(g, []string{"1.2.3.4", "NXDOMAIN", ""}))
	}
	if wl && g.Chance(1, 6) {
		mods = append(mods, Pick(g, []string{"stealth", "elemhide", "urlblock", "genericblock", "document"}))
	}
	if g.Chance(1, 6) {
		mods = append(mods, "badfilter")
	}
	t := "||example.org^"
	if wl {
		t = "@@" + t
	}
	Shuffle(g, mods)
	if len(mods) > 0 {
		t += "$" + strings.Join(mods, ",")
	}
	return t
}

func c06SrcRule(g *Gen) string {
	t := Pick(g, []string{
		"@@||a.org^$urlblock", "@@||a.org^$genericblock", "@@||a.org^$document", "@@||a.org^$elemhide",
		"@@||a.org^$genericblock,important", "@@||a.org^$urlblock,important", "@@||a.org^$urlblock,genericblock",
		"@@||a.org^", "||a.org^", "@@||a.org^$stealth", "@@||a.org^$jsinject", "@@||a.org^$content",
		"@@||a.org^$urlblock,domain=a.org", "@@||a.org^$genericblock,domain=a.org",
		// case-sensitive referrer-level exceptions: they match one spelling of the referrer only
		"@@||a.org/Page$urlblock,match-case", "@@||a.org/page$genericblock,match-case", "@@||a.org/Page$document,match-case",
	})
	if g.Chance(1, 7) {
		t += ",badfilter"
		t = strings.Replace(t, "^,badfilter", "^$badfilter", 1)
	}
	return t
}

func classOf(r *rules.NetworkRule) string {
	switch {
	case r == nil:
		return "n:"
	case r.Whitelist:
		return "a:" + hx(r.RuleText)
	default:
		return "b:" + hx(r.RuleText)
	}
}

// permutations calls f with every permutation of idx (Heap's algorithm), at most limit times.
func permutations(n int, limit int, f func(p []int) bool) {
	p := make([]int, n)
	for i := range p {
		p[i] = i
	}
	c := make([]int, n)
	cnt := 1
	if !f(p) {
		return
	}
	for i := 0; i < n; {
		if c[i] < i {
			if i%2 == 0 {
				p[0], p[i] = p[i], p[0]
			} else {
				p[c[i]], p[i] = p[i], p[c[i]]
			}
			cnt++
			if !f(p) || cnt >= limit {
				return
			}
			c[i]++
			i = 0
		} else {
			c[i] = 0
			i++
		}
	}
}

func permute[T any](l []T, p []int) []T {
	out := make([]T, len(l))
	for i, j := range p {
		out[i] = l[j]
	}
	return out
}

func init() {
	register("c06", &Prop{
		Gen: func(g *Gen, tier string, emit func(string)) {
			n := 9000
			if tier == "thorough" {
				n = 250000
			}
			// targeted: the referrer is matched by several document-level exceptions
			docs := []string{"@@||a.org^$urlblock", "@@||a.org^$genericblock", "@@||a.org^$genericblock,important", "@@||a.org^$urlblock,important", "@@||a.org^$document", "@@||a.org^$genericblock,domain=a.org"}
			reqs := []string{"||example.org^", "||example.org^$domain=a.org", "||example.org^$important", "@@||example.org^", "||example.org^$important,domain=a.org"}
			for _, d1 := range docs {
				for _, d2 := range docs {
					for _, r := range reqs {
						emit("web\t" + encList([]string{r}) + "\t" + encList([]string{d1, d2}))
						emit("web\t" + encList([]string{r, "||example.org^$script"}) + "\t" + encList([]string{d2, "||a.org^", d1}))
					}
				}
			}
			// targeted: document-level exceptions restricted to (or away from) the page's own host, against blocks of the
			// same page — the engine looks the referrer up without a source
			for _, blk := range []string{"||example.org^", "||example.org^$important", "||example.org^$domain=example.org"} {
				for _, dl := range []string{"urlblock", "genericblock", "document", "urlblock,important", "elemhide"} {
					for _, dom := range []string{"domain=example.org", "domain=~example.org", "domain=a.org", ""} {
						exc := "@@||example.org^$" + dl
						if dom != "" {
							exc += "," + dom
						}
						l := []string{blk, exc}
						if g.Bool() {
							l = append(l, Pick(g, []string{"@@||example.org^", "||example.org^$script", "@@||a.org^$urlblock"}))
						}
						Shuffle(g, l)
						k := g.Intn(len(l) + 1)
						emit("engine\t" + encList(l[:k]) + "\t" + encList(l[k:]))
					}
				}
			}
			for i := 0; i < n; i++ {
				nr := g.Intn(6)
				var rs, src []string
				for j := 0; j < nr; j++ {
					rs = append(rs, c06ReqRule(g))
				}
				if len(rs) > 0 && g.Chance(1, 5) {
					// the same rule from two lists (with or without a $badfilter twin elsewhere in the list)
					d := Pick(g, rs)
					rs = append(rs, d)
					if g.Chance(1, 2) && !strings.Contains(d, "badfilter") {
						rs = append(rs, withBadfilter(d))
					}
					Shuffle(g, rs)
				}
				ns := g.Intn(4)
				if g.Chance(1, 3) {
					ns = 0
				}
				for j := 0; j < ns; j++ {
					src = append(src, c06SrcRule(g))
				}
				rs, _ = validRules(rs)
				src, _ = validRules(src)
				switch g.Intn(8) {
				case 0, 1:
					emit("dns\t" + encList(rs))
				case 2:
					// engine: split the rules over two lists
					all := append(append([]string{}, rs...), src...)
					if g.Chance(1, 2) {
						// the same rules written with patterns of other shapes (a scheme prefix, a bare literal, a short literal, a
						// regular expression): the engine files them in different lookup tables, the verdict follows the
						// precedence all the same
						for j, t := range all {
							if strings.Contains(t, "||example.org^") && g.Chance(2, 3) {
								shape := Pick(g, []string{"|http://", "://example.", `/^https?:\/\/example\./`, "/^http/", "example.org", "|http://example.org", "org", "||example.org^", "/exa.*org/"})
								t2 := strings.Replace(t, "||example.org^", shape, 1)
								if _, err := rules.NewNetworkRule(t2, 1); err == nil {
									all[j] = t2
								}
							}
						}
					}
					Shuffle(g, all)
					k := g.Intn(len(all) + 1)
					emit("engine\t" + encList(all[:k]) + "\t" + encList(all[k:]))
				default:
					emit("web\t" + encList(rs) + "\t" + encList(src))
				}
			}
		},
		Run: func(line string, st *Stats) (string, string, bool) {
			f := strings.Split(line, "\t")
			switch f[0] {
			case "web":
				t1, t2 := decList(f[1]), decList(f[2])
				_, rs := validRules(t1)
				_, src := validRules(t2)
				if len(rs) != len(t1) || len(src) != len(t2) {
					return "INVALID-RULE-IN-CASE", line, false
				}
				w := rules.NewMatchingResult(rs, src).GetBasicResult()
				obs := classOf(w)
				// permutations of both lists must give the same class
				cls := obs[:1]
				flags := ""
				permutations(len(rs), 130, func(p []int) bool {
					ok := true
					permutations(len(src), 30, func(q []int) bool {
						_, rs2 := validRules(permute(t1, p))
						_, src2 := validRules(permute(t2, q))
						c := classOf(rules.NewMatchingResult(rs2, src2).GetBasicResult())[:1]
						if c != cls {
							flags = fmt.Sprintf("!ORDER-DEPENDENT:%s under permutation %v/%v", c, p, q)
							ok = false
						}
						return ok
					})
					return ok
				})
				st.Inc("web")
				st.Inc("web_verdict_" + cls)
				return obs + flags, line, len(rs)+len(src) > 1
			case "dns":
				t1 := decList(f[1])
				_, rs := validRules(t1)
				if len(rs) != len(t1) {
					return "INVALID-RULE-IN-CASE", line, false
				}
				obs := classOf(rules.GetDNSBasicRule(rs))
				cls := obs[:1]
				flags := ""
				permutations(len(rs), 130, func(p []int) bool {
					_, rs2 := validRules(permute(t1, p))
					if c := classOf(rules.GetDNSBasicRule(rs2))[:1]; c != cls {
						flags = fmt.Sprintf("!ORDER-DEPENDENT:%s under permutation %v", c, p)
						return false
					}
					return true
				})
				st.Inc("dns")
				st.Inc("dns_verdict_" + cls)
				return obs + flags, line, len(rs) > 1
			default:
				l1, l2 := decList(f[1]), decList(f[2])
				mk := func(a, b []string) *filterlist.RuleStorage {
					s, err := filterlist.NewRuleStorage([]filterlist.RuleList{
						&filterlist.StringRuleList{ID: 1, RulesText: strings.Join(a, "\n") + "\n"},
						&filterlist.StringRuleList{ID: 2, RulesText: strings.Join(b, "\n") + "\n"},
					})
					must(err)
					return s
				}
				run := func(a, b []string) (obs string, oracle string) {
					s := mk(a, b)
					e := urlfilter.NewEngine(s)
					ne := urlfilter.NewNetworkEngine(s)
					de := urlfilter.NewDNSEngine(s)
					req := rules.NewRequest("http://example.org/x.js", "http://a.org/page", rules.TypeScript)
					srcReq := rules.NewRequest("http://a.org/page", "", rules.TypeDocument)
					m1, m2 := ne.MatchAll(req), ne.MatchAll(srcReq)
					v1 := classOf(e.MatchRequest(req).GetBasicResult())
					r2, _ := ne.Match(req)
					v2 := classOf(r2)
					dres, _ := de.MatchRequest(&urlfilter.DNSRequest{Hostname: "example.org"})
					v3 := classOf(dres.NetworkRule)
					// a page that is its own referrer (reload, same-page navigation): the referrer is still looked up as a
					// document request WITHOUT a source, so rules carrying $domain match one of the two lookups only
					selfReq := rules.NewRequest("http://example.org/", "http://example.org/", rules.TypeDocument)
					selfSrc := rules.NewRequest("http://example.org/", "", rules.TypeDocument)
					m4, m5 := ne.MatchAll(selfReq), ne.MatchAll(selfSrc)
					v4 := classOf(e.MatchRequest(selfReq).GetBasicResult())
					// the verdict is a function of the rules and THIS request and referrer: the same engine, asked for pages
					// whose referrers differ only in letter case (or not at all), answers like a fresh engine
					for _, src := range []string{"http://a.org/Page", "http://a.org/page", "http://a.org/Page", "http://A.org/page", "http://a.org/page"} {
						rq := rules.NewRequest("http://example.org/x.js", src, rules.TypeScript)
						got := classOf(e.MatchRequest(rq).GetBasicResult())
						want := classOf(urlfilter.NewEngine(mk(a, b)).MatchRequest(rules.NewRequest("http://example.org/x.js", src, rules.TypeScript)).GetBasicResult())
						if got != want {
							v4 += "!VERDICT-DEPENDS-ON-EARLIER-REQUESTS:referrer=" + src
							break
						}
					}
					return v1 + ";" + v2 + ";" + v3 + ";" + v4, ruleTexts(m1) + "\t" + ruleTexts(m2) + "\t" + ruleTexts(dres.NetworkRules) + "\t" + ruleTexts(m4) + "\t" + ruleTexts(m5)
				}
				obs, oracle := run(l1, l2)
				// swapping the lists and moving rules between them must not change the classes
				o2, _ := run(l2, l1)
				o3, _ := run(append(append([]string{}, l1...), l2...), nil)
				flags := ""
				cl := func(s string) string {
					p := strings.Split(s, ";")
					return p[0][:1] + p[1][:1] + p[2][:1] + p[3][:1]
				}
				if cl(o2) != cl(obs) || cl(o3) != cl(obs) {
					flags = "!SPLIT-DEPENDENT:" + cl(obs) + "/" + cl(o2) + "/" + cl(o3)
				}
				st.Inc("engine")
				return obs + flags, line + "\t" + oracle, true
			}
		},
	})
}
