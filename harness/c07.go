package main

import (
	"fmt"
	"strings"

	"github.com/AdguardTeam/urlfilter/rules"
)

// C07: rule priority is a strict weak order; the selected rule is maximal.
//
// case "pairs":  pairs TAB <list of rule texts>          obs: n*n matrix of IsHigherPriority(a_i, a_j) [+ !flags]
// case "select": select TAB <list of rule texts>         obs: winner of GetDNSBasicRule ; winner of NewMatchingResult(...).GetBasicResult
func featureRule(g *Gen) string {
	if g.Chance(1, 14) {
		// generic rules whose modifier counts differ by a chosen gap: k option / content-type modifiers against the
		// five list modifiers ($domain with excluded entries only, $dnstype, $ctag, $client, $denyallow) plus j more
		flags := []string{"script", "image", "font", "media", "third-party", "stylesheet", "match-case", "object", "~ping"}
		lists := []string{"domain=~a.com", "dnstype=A", "ctag=device_pc", "client=Mom", "denyallow=b.com"}
		Shuffle(g, flags)
		var mods []string
		if g.Bool() {
			mods = append(mods, flags[:3+g.Intn(6)]...)
		} else {
			mods = append(mods, lists...)
			mods = append(mods, flags[:g.Intn(4)]...)
		}
		Shuffle(g, mods)
		return Pick(g, []string{"", "@@"}) + "||example.org^$" + strings.Join(mods, ",")
	}
	if g.Chance(1, 12) {
		// a generic rule with many modifiers (up to 14) against rules that have little more than $domain: no number of
		// modifiers makes up for the generic/specific rank
		all := []string{"~script", "~image", "~stylesheet", "~object", "~font", "~media", "~subdocument", "~xmlhttprequest", "~websocket", "~ping", "~other", "third-party", "match-case", "dnstype=~A", "ctag=~device_pc", "client=~127.0.0.1"}
		Shuffle(g, all)
		k := 9 + g.Intn(6)
		txt := Pick(g, []string{"", "@@"}) + "||example.org^$" + strings.Join(all[:k], ",")
		if g.Chance(1, 3) {
			txt += ",important"
		}
		return txt
	}
	var mods []string
	if g.Chance(1, 3) {
		mods = append(mods, "important")
	}
	switch g.Intn(5) {
	case 0:
		mods = append(mods, "domain=example.org")
	case 1:
		mods = append(mods, "domain=example.org|example.com")
	case 2:
		mods = append(mods, "domain=~example.org")
	case 3:
		if g.Bool() {
			// permitted and excluded entries in one list: still ONE $domain modifier, and a specific rule
			mods = append(mods, Pick(g, []string{"domain=example.org|~sub.example.org", "domain=~a.example.org|example.org|example.com", "domain=example.com|~x.example.com"}))
		}
	}
	switch g.Intn(6) {
	case 0:
		mods = append(mods, "script")
	case 1:
		mods = append(mods, "script", "image")
	case 2:
		mods = append(mods, "~image")
	case 3:
		mods = append(mods, "script", "~image")
	}
	switch g.Intn(6) {
	case 0:
		mods = append(mods, "third-party")
	case 1:
		mods = append(mods, "~third-party")
	case 2:
		mods = append(mods, "match-case")
	case 3:
		mods = append(mods, "third-party", "match-case")
	case 4:
		if g.Chance(1, 2) {
			// one option or content type written in both polarities: each mention counts as a modifier
			mods = append(mods, Pick(g, [][]string{{"match-case", "~match-case"}, {"third-party", "~third-party"}, {"script", "~script"}, {"~match-case", "match-case", "third-party"}})...)
		}
	}
	switch g.Intn(5) {
	case 0:
		mods = append(mods, "dnstype=A")
	case 1:
		mods = append(mods, "dnstype=~A")
	}
	switch g.Intn(5) {
	case 0:
		mods = append(mods, "ctag=device_pc")
	case 1:
		mods = append(mods, "ctag=~device_pc")
	}
	switch g.Intn(5) {
	case 0:
		mods = append(mods, "client=Mom")
	case 1:
		mods = append(mods, "client=~127.0.0.1")
	}
	if g.Chance(1, 5) {
		mods = append(mods, Pick(g, []string{"denyallow=example.net", "denyallow=example.net", "denyallow=example.net|example.com", "denyallow=example.net|example.com|test.com|a.com"}))
	}
	if g.Chance(1, 12) {
		mods = append(mods, "badfilter")
	}
	if g.Chance(1, 12) {
		mods = append(mods, "dnsrewrite=1.2.3.4")
	}
	txt := "||example.org^"
	if g.Chance(1, 3) {
		txt = "@@" + txt
		if g.Chance(1, 4) {
			mods = append(mods, Pick(g, []string{"elemhide", "urlblock", "genericblock", "document", "jsinject"}))
		}
	}
	Shuffle(g, mods)
	if len(mods) > 0 {
		txt += "$" + strings.Join(mods, ",")
	}
	return txt
}

func validRules(texts []string) (out []string, rs []*rules.NetworkRule) {
	for _, t := range texts {
		r, err := rules.NewNetworkRule(t, 1)
		if err == nil && !strings.ContainsAny(t, "\n\r") && isASCII(t) {
			out = append(out, t)
			rs = append(rs, r)
		}
	}
	return out, rs
}

func isASCII(s string) bool {
	for i := 0; i < len(s); i++ {
		if s[i] >= 0x80 {
			return false
		}
	}
	return true
}

func init() {
	single := []string{
		"||example.org^", "@@||example.org^", "||example.org^$important", "@@||example.org^$important",
		"||example.org^$domain=example.org", "||example.org^$domain=~example.org", "||example.org^$script",
		"||example.org^$~script", "||example.org^$script,image", "||example.org^$third-party", "||example.org^$~third-party",
		"||example.org^$match-case", "||example.org^$dnstype=A", "||example.org^$dnstype=~A", "||example.org^$ctag=a",
		"||example.org^$ctag=~a", "||example.org^$client=Mom", "||example.org^$client=~Mom", "||example.org^$client=127.0.0.1",
		"||example.org^$denyallow=example.net", "||example.org^$ctag=a|~b", "||example.org^$client=Mom|~Dad",
		"||example.org^$badfilter", "||example.org^$dnsrewrite=1.2.3.4", "@@||example.org^$elemhide", "@@||example.org^$document",
		"@@||example.org^$urlblock", "@@||example.org^$genericblock,important", "||example.org^$popup", "@@||example.org^$stealth",
		"||example.org^$domain=example.org,script", "||example.org^$ctag=~a,script", "||example.org^$client=~Mom,script",
		"||example.org^$denyallow=example.net,script", "||example.org^$dnstype=~A,script",
		"||example.org^$domain=example.org|~sub.example.org", "||example.org^$domain=example.org|~sub.example.org,script", "||example.org^$domain=~a.org|~b.org",
		// the NUMBER of values inside a list-valued modifier never counts, only its presence
		"||example.org^$denyallow=a.com|b.com", "||example.org^$denyallow=a.com|b.com|c.com|d.com", "||example.org^$ctag=a,client=Mom", "||example.org^$ctag=a,client=Mom,dnstype=A",
		"||example.org^$denyallow=a.com|b.com|c.com,script", "||example.org^$domain=a.org|b.org|c.org|d.org", "||example.org^$domain=a.org,script", "||example.org^$ctag=a|b|c|d", "||example.org^$client=Mom|Dad|Kids",
		"||example.org^$dnstype=A|AAAA|CNAME|MX", "||example.org^$dnstype=A,ctag=a",
		"||example.org^$match-case,~match-case", "||example.org^$image,~image", "||example.org^$third-party,~third-party", "||example.org^$~match-case",
	}
	register("c07", &Prop{
		Gen: func(g *Gen, tier string, emit func(string)) {
			pools, psize, selects := 6, 110, 1500
			if tier == "thorough" {
				pools, psize, selects = 40, 160, 40000
			}
			v, _ := validRules(single)
			emit("pairs\t" + encList(v))
			for p := 0; p < pools; p++ {
				var texts []string
				seen := map[string]bool{}
				for len(texts) < psize {
					var t string
					if g.Chance(4, 5) {
						t = featureRule(g)
					} else {
						t = genNetworkRule(g)
					}
					if !seen[t] {
						seen[t] = true
						texts = append(texts, t)
					}
				}
				// add-a-modifier pairs: the original is already in the pool
				for i := 0; i < 20; i++ {
					base := Pick(g, texts)
					add := Pick(g, []string{"important", "domain=test.com", "script", "~media", "third-party", "match-case", "dnstype=MX", "ctag=zz", "ctag=~zz", "client=Kids", "client=~Kids", "denyallow=test.com"})
					if strings.Contains(base, strings.SplitN(add, "=", 2)[0]) {
						continue
					}
					if strings.Contains(base, "$") {
						texts = append(texts, base+","+add)
					} else {
						texts = append(texts, base+"$"+add)
					}
				}
				v, _ := validRules(texts)
				emit("pairs\t" + encList(v))
			}
			for i := 0; i < selects; i++ {
				n := 1 + g.Intn(7)
				var texts []string
				for j := 0; j < n; j++ {
					texts = append(texts, featureRule(g))
				}
				v, _ := validRules(texts)
				if len(v) > 0 {
					emit("select\t" + encList(v))
				}
			}
			// candidates together with the rules matching the page: $urlblock / $genericblock exceptions of the page switch
			// blocking rules (all of them / the generic ones) off BEFORE they compete, whatever their priority
			for i := 0; i < selects/2; i++ {
				n := 1 + g.Intn(6)
				var texts []string
				for j := 0; j < n; j++ {
					switch g.Intn(6) {
					case 0:
						texts = append(texts, Pick(g, []string{"||example.org^$important", "/ads$important", "||example.org^$important,script", "||example.org^$important,domain=a.org"}))
					case 1:
						texts = append(texts, Pick(g, []string{"||example.org^", "/ads", "||example.org^$script", "||example.org^$third-party"}))
					case 2:
						texts = append(texts, Pick(g, []string{"||example.org^$domain=a.org", "/ads$domain=a.org|b.org", "||example.org^$domain=a.org,script", "||example.org^$domain=~b.org"}))
					case 3:
						texts = append(texts, Pick(g, []string{"@@||example.org^", "@@/ads$domain=a.org", "@@||example.org^$important"}))
					default:
						texts = append(texts, featureRule(g))
					}
				}
				var src []string
				for j := g.Intn(4); j > 0; j-- {
					src = append(src, Pick(g, []string{"@@||a.org^$genericblock", "@@||a.org^$urlblock", "@@||a.org^$document", "@@||a.org^$elemhide", "@@||a.org^$genericblock,important",
						"@@||a.org^$genericblock,badfilter", "@@||a.org^$urlblock,badfilter", "||a.org^", "@@||a.org^", "@@||a.org^$generichide,genericblock", "@@||a.org^$jsinject", "@@||a.org^$stealth"}))
				}
				v, _ := validRules(texts)
				sv, _ := validRules(src)
				if len(v) > 0 {
					emit("selectsrc\t" + encList(v) + "\t" + encList(sv))
				}
			}
		},
		Run: func(line string, st *Stats) (string, string, bool) {
			f := strings.Split(line, "\t")
			texts := decList(f[1])
			_, rs := validRules(texts)
			if len(rs) != len(texts) {
				return "INVALID-RULE-IN-CASE", line, false
			}
			switch f[0] {
			case "selectsrc":
				stexts := decList(f[2])
				_, ss := validRules(stexts)
				if len(ss) != len(stexts) {
					return "INVALID-RULE-IN-CASE", line, false
				}
				w := rules.NewMatchingResult(rs, ss).BasicRule
				// the competing candidates: effective rules that the page's exceptions leave enabled.  The winner is one
				// of them and none of them outranks it; if any competes, one is selected
				urlblock, genericblock := false, false
				for _, s := range rules.RemoveBadfilterRules(ss) {
					if s.Whitelist && s.DNSRewrite == nil {
						urlblock = urlblock || s.IsOptionEnabled(rules.OptionUrlblock)
						genericblock = genericblock || s.IsOptionEnabled(rules.OptionGenericblock)
					}
				}
				flags := ""
				competing := 0
				for _, r := range rules.RemoveBadfilterRules(rs) {
					if r.DNSRewrite != nil || r.IsOptionEnabled(rules.OptionCookie) || r.IsOptionEnabled(rules.OptionReplace) || r.IsOptionEnabled(rules.OptionCsp) || r.IsOptionEnabled(rules.OptionStealth) {
						continue
					}
					if !r.Whitelist && (urlblock || (genericblock && r.IsGeneric())) {
						if r == w {
							flags = "!A-DISABLED-RULE-IS-SELECTED:" + r.RuleText
						}
						continue
					}
					competing++
					if w != nil && r.IsHigherPriority(w) {
						flags = "!OUTRANKED-BY:" + r.RuleText
					}
				}
				if w == nil && competing > 0 && flags == "" {
					flags = fmt.Sprintf("!NO-RULE-SELECTED-ALTHOUGH-%d-COMPETE", competing)
				}
				st.Inc("select_with_page_rules")
				if urlblock || genericblock {
					st.Inc("select_page_disables_blocking")
				}
				out := "nil"
				if w != nil {
					out = hx(w.RuleText)
				}
				return out + flags, line, len(rs) > 1
			case "pairs":
				n := len(rs)
				m := make([][]bool, n)
				var sb strings.Builder
				for i := range rs {
					m[i] = make([]bool, n)
					for j := range rs {
						m[i][j] = rs[i].IsHigherPriority(rs[j])
						sb.WriteString(b01(m[i][j]))
					}
				}
				// the property's own oracle on the implementation's relation
				flags := ""
				for i := 0; i < n; i++ {
					if m[i][i] {
						flags += "!REFLEXIVE:" + texts[i]
						break
					}
				}
				inc := func(i, j int) bool { return !m[i][j] && !m[j][i] }
			outer:
				for i := 0; i < n; i++ {
					for j := 0; j < n; j++ {
						if m[i][j] && m[j][i] {
							flags += "!SYMMETRIC:" + texts[i] + " <> " + texts[j]
							break outer
						}
						for k := 0; k < n; k++ {
							if m[i][j] && m[j][k] && !m[i][k] {
								flags += "!INTRANSITIVE:" + texts[i] + " > " + texts[j] + " > " + texts[k]
								break outer
							}
							if inc(i, j) && inc(j, k) && !inc(i, k) {
								flags += "!TIES-INTRANSITIVE:" + texts[i] + " ~ " + texts[j] + " ~ " + texts[k]
								break outer
							}
						}
					}
				}
				st.Add("pairs", n*n)
				st.Add("triples", n*n*n)
				return sb.String() + flags, line, true
			default:
				w1 := rules.GetDNSBasicRule(rs)
				w2 := rules.NewMatchingResult(rs, nil).GetBasicResult()
				t := func(r *rules.NetworkRule) string {
					if r == nil {
						return "nil"
					}
					return hx(r.RuleText)
				}
				// maximality in the implementation's own relation
				flags := ""
				if w1 != nil {
					// only the effective rules compete: a rule disabled by a $badfilter twin (whatever the order of its
					// modifiers in the text) does not.  RemoveBadfilterRules is the subject of C08.
					for _, r := range rules.RemoveBadfilterRules(rs) {
						if r.DNSRewrite == nil && r.IsHigherPriority(w1) {
							flags = "!OUTRANKED-BY:" + r.RuleText
						}
					}
				}
				st.Inc("select")
				return t(w1) + ";" + t(w2) + flags, line, len(rs) > 1
			}
		},
	})
}
