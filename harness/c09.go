package main

import (
	"fmt"
	"strings"

	"github.com/AdguardTeam/urlfilter"
	"github.com/AdguardTeam/urlfilter/filterlist"
	"github.com/AdguardTeam/urlfilter/rules"
)

// C09: effective DNS rewrites apply every matching exception, in any order.
//
// case "seq":    seq TAB <list of rule texts>            DNSResult{NetworkRules: rules}.DNSRewrites()
// case "engine": engine TAB <list of rule texts>         through DNSEngine.MatchRequest("h"); the order of
//                res.NetworkRules is handed to the model as an oracle field
// obs: texts of DNSRewrites() as a sequence [+ !flags from the reference filter evaluated in Go]

func rwRule(exception, important bool, value string) string {
	t := "||h^$dnsrewrite=" + value
	if exception {
		t = "@@" + t
	}
	if important {
		t += ",important"
	}
	return t
}

var rwSmall = []string{
	rwRule(false, false, "1.2.3.4"), rwRule(false, true, "1.2.3.4"), rwRule(false, false, "1.2.3.5"),
	rwRule(false, false, "x.org"), rwRule(false, false, "NXDOMAIN"), rwRule(false, false, "NOERROR;MX;10 m.org"),
	rwRule(true, false, "1.2.3.4"), rwRule(true, true, "1.2.3.4"), rwRule(true, false, "x.org"),
	rwRule(true, false, "NOERROR;MX;10 m.org"), rwRule(true, false, ""), rwRule(true, true, ""),
}

func rwFull() []string {
	vals := []string{"1.2.3.4", "1.2.3.5", "::1", "x.org", "y.org", "NXDOMAIN", "REFUSED", "NOERROR;TXT;hi", "NOERROR;MX;10 m.org",
		"NOERROR;MX;20 m.org", "NOERROR;SRV;1 2 80 s.org", "NOERROR;HTTPS;1 . alpn=h3", "NOERROR;A;1.2.3.4", "NOERROR;PTR;p.org", "NOERROR;NS;n.org", "NOERROR;;",
		// parameter maps: same size with different keys, empty values, same map written in another order
		"NOERROR;HTTPS;1 . alpn=h3 no-default-alpn=", "NOERROR;HTTPS;1 . alpn=h3 port=8443", "NOERROR;HTTPS;1 . port=8443 alpn=h3",
		"NOERROR;HTTPS;1 . alpn=h3 ech=", "NOERROR;HTTPS;1 . alpn= port=8443", "NOERROR;SVCB;1 . alpn=h3", "NOERROR;HTTPS;2 . alpn=h3",
		"NOERROR;SRV;1 2 81 s.org", "NOERROR;SRV;1 3 80 s.org", "NOERROR;MX;10 n.org", "NOERROR;TXT;", "NOERROR;AAAA;::1", "NOERROR;A;1.2.3.5",
		// every response code the full form accepts, not only the three keyword codes
		"NOTIMP;;", "FORMERR;;", "YXDOMAIN;;", "NOTAUTH;;", "SERVFAIL;;", "SERVFAIL"}
	var out []string
	for _, v := range vals {
		for _, exc := range []bool{false, true} {
			for _, imp := range []bool{false, true} {
				out = append(out, rwRule(exc, imp, v))
			}
		}
	}
	out = append(out, rwRule(true, false, ""), rwRule(true, true, ""), "||h^$dnsrewrite=1.2.3.4,badfilter", "||h^", "@@||h^", "||h^$important")
	return out
}

func init() {
	register("c09", &Prop{
		Gen: func(g *Gen, tier string, emit func(string)) {
			maxLen, sampled := 4, 8000
			if tier == "thorough" {
				maxLen, sampled = 5, 300000
			}
			// exhaustive over the small alphabet
			var rec func(prefix []string)
			rec = func(prefix []string) {
				emit("seq\t" + encList(prefix))
				if len(prefix) == maxLen {
					return
				}
				for _, s := range rwSmall {
					rec(append(append([]string{}, prefix...), s))
				}
			}
			rec(nil)
			full := rwFull()
			for i := 0; i < sampled; i++ {
				n := g.Intn(9)
				if g.Chance(1, 25) {
					// long results (a name many lists have an opinion about): dozens of rewrites with a few exceptions anywhere
					n = Pick(g, []int{12, 13, 14, 16, 20, 24, 33, 40, 64})
				}
				var seq []string
				for j := 0; j < n; j++ {
					seq = append(seq, Pick(g, full))
				}
				kind := "seq"
				if g.Chance(1, 6) {
					kind = "engine"
				}
				emit(kind + "\t" + encList(seq))
			}
		},
		Run: func(line string, st *Stats) (string, string, bool) {
			f := strings.Split(line, "\t")
			texts := decList(f[1])
			var nr []*rules.NetworkRule
			mi := line
			if f[0] == "seq" {
				_, rs := validRules(texts)
				if len(rs) != len(texts) {
					return "INVALID-RULE-IN-CASE", line, false
				}
				nr = rs
				mi = line + "\t" + f[1]
			} else {
				// distinct texts are required by the string list; duplicates are fine for the engine
				s, err := filterlist.NewRuleStorage([]filterlist.RuleList{
					&filterlist.StringRuleList{ID: 1, RulesText: strings.Join(texts, "\n") + "\n"},
				})
				must(err)
				e := urlfilter.NewDNSEngine(s)
				res, _ := e.MatchRequest(&urlfilter.DNSRequest{Hostname: "h"})
				nr = res.NetworkRules
				mi = line + "\t" + ruleTexts(nr)
			}
			res := &urlfilter.DNSResult{NetworkRules: nr}
			out := res.DNSRewrites()
			nExc := 0
			for _, r := range nr {
				if r.Whitelist && r.DNSRewrite != nil {
					nExc++
				}
			}
			st.Inc(fmt.Sprintf("len_%d", min(len(nr), 9)))
			st.Inc(fmt.Sprintf("exceptions_%d", min(nExc, 4)))
			flags := ""
			for _, r := range out {
				if r.Whitelist {
					flags = "!EXCEPTION-RETURNED"
				}
			}
			// the getters are pure: asking again, in any order, gives the same answers and leaves NetworkRules alone
			first, before := ruleTexts(out), ruleTexts(nr)
			all1 := ruleTexts(res.DNSRewritesAll())
			again := ruleTexts(res.DNSRewrites())
			all2 := ruleTexts(res.DNSRewritesAll())
			if again != first || all1 != all2 || ruleTexts(res.NetworkRules) != before {
				flags += "!GETTERS-NOT-IDEMPOTENT"
			}
			return first + flags, mi, nExc > 0 && len(nr) > 1
		},
	})
}
