package main

import (
	"fmt"
	"net/netip"
	"strings"

	"github.com/AdguardTeam/urlfilter/filterutil"
	"github.com/AdguardTeam/urlfilter/rules"
	"github.com/miekg/dns"
)

// C10: parsed $dnsrewrite values always have the published shape.
//
// case:  <value hex>
// obs:   E | P:<msg> | <canonical rendering of the DNSRewrite>[!SHAPE:<why>]
func genRewriteValue(g *Gen) string {
	rcodes := []string{"NOERROR", "noerror", "NXDOMAIN", "nxdomain", "REFUSED", "SERVFAIL", "FORMERR", "NOTIMP", "NOTIMPL", "YXDOMAIN", "BADKEY", "BOGUS", "", "0", "NoError"}
	types := []string{"A", "AAAA", "CNAME", "MX", "PTR", "TXT", "HTTPS", "SVCB", "SRV", "NS", "SOA", "ANY", "a", "aaaa", "mx", "https", "svcb", "srv", "ptr", "txt", "cname", "none", "NONE", "Reserved", "", "BOGUS", "TYPE1", "A6", "CAA"}
	nums := []string{"0", "1", "10", "65535", "65536", "99999", "+1", "-1", "007", "", "1.5", "0x10", "1_0", "４", "18446744073709551616", "00000000000000000000001"}
	hosts := []string{"example.org", "mail.example.org", "a.b", ".", "", "-bad.org", "bad-.org", "a..b", "under_score.org", "x", "host.example.org.", "1.2.3.4", "é.org", strings.Repeat("a", 63), strings.Repeat("a", 64), "a.b.c.d.e.f", "ex ample.org", "UPPER.Org", "9start.org"}
	ips := []string{"1.2.3.4", "127.0.0.1", "0.0.0.0", "255.255.255.255", "256.1.1.1", "1.2.3", "1.2.3.4.5", "01.2.3.4", "1.2.3.04", "::", "::1", "2001:db8::1", "::ffff:1.2.3.4", "1:2:3:4:5:6:7:8", "1:2:3:4:5:6:7:8:9", "1::2::3", "12345::", "fe80::1%eth0", "[::1]", "1:2:3:4:5:6:1.2.3.4", "::1.2.3.4", "1:2:3:4:5:1.2.3.4", ":1", "1:", "a.b.c.d", "ABCD:EF01::", "abcd:ef01::", "1.2.3.4:", ".1.2.3", "1..2.3"}
	switch g.Intn(14) {
	case 0:
		return Pick(g, ips)
	case 1:
		return Pick(g, hosts)
	case 2:
		return Pick(g, []string{"NOERROR", "SERVFAIL", "NXDOMAIN", "REFUSED", "FORMERR", "BLOCKED", "A", "AAAA", "X", "ZZZZ", "NOTIMP"})
	case 3:
		return Pick(g, rcodes) + ";" + Pick(g, types) + ";" + Pick(g, ips)
	case 4:
		return Pick(g, rcodes) + ";" + Pick(g, types) + ";" + Pick(g, hosts)
	case 5:
		return "NOERROR;MX;" + Pick(g, nums) + Pick(g, []string{" ", "", "  "}) + Pick(g, hosts)
	case 6:
		f := []string{Pick(g, nums), Pick(g, nums), Pick(g, nums), Pick(g, hosts)}
		n := g.Intn(6)
		for len(f) < n {
			f = append(f, "extra")
		}
		if n < 4 && g.Chance(1, 2) {
			f = f[:n]
		}
		return "NOERROR;SRV;" + strings.Join(f, " ")
	case 7:
		t := Pick(g, []string{"HTTPS", "SVCB", "https", "svcb"})
		f := []string{Pick(g, nums), Pick(g, hosts)}
		np := g.Intn(4)
		for i := 0; i < np; i++ {
			f = append(f, Pick(g, []string{"alpn=h3", "alpn=h2", "port=8443", "ipv4hint=1.2.3.4", "novalue", "a=b=c", "=", "k=", "=v", "", "alpn=h3"}))
		}
		if g.Chance(1, 6) {
			f = f[:1]
		}
		if g.Chance(1, 4) {
			// the alias form and its neighbours (priority zero in every spelling, the root as target): still an SVCB value
			f = []string{Pick(g, []string{"0", "00", "0", "000", "1", "+0", "-0", "0 "}), Pick(g, []string{".", ".", "..", "example.net", "example.net."})}
			if g.Chance(1, 4) {
				f = append(f, Pick(g, []string{"alpn=h3", "port=443", "novalue"}))
			}
			return Pick(g, []string{"NOERROR", "noerror", "NoError", "NXDOMAIN"}) + ";" + t + ";" + strings.Join(f, " ")
		}
		return "NOERROR;" + t + ";" + strings.Join(f, " ")
	case 8:
		// trailing dots: exactly one makes a name fully qualified, the validated string must be the stored one
		return "NOERROR;" + Pick(g, []string{"PTR", "ptr"}) + ";" + Pick(g, hosts) + Pick(g, []string{"", "", ".", "..", "...", ". "})
	case 9:
		if g.Chance(1, 4) {
			// length boundaries of a TXT character-string (255) and beyond
			return "NOERROR;TXT;" + strings.Repeat(Pick(g, []string{"a", "xy ", "v=spf1 "}), 1000)[:Pick(g, []int{36, 200, 254, 255, 256, 257, 300, 510, 511, 1000})]
		}
		return "NOERROR;TXT;" + Pick(g, []string{"hello", "", "a;b;c", "with space", "v=spf1 -all", "x\\,y"})
	case 10:
		// wrong number of delimiters
		return Pick(g, []string{"NOERROR;A", "NOERROR;", ";", ";;", ";;;", "NOERROR;A;1.2.3.4;extra", "NXDOMAIN;;", "REFUSED;A;1.2.3.4", "SERVFAIL;;x", ";A;1.2.3.4", "NOERROR;;1.2.3.4", "NOERROR;A;"})
	case 11:
		return Pick(g, rcodes) + ";" + Pick(g, types) + ";" + Pick(g, []string{"", "x", "1 2", "10 mail.example.org", "1 2 3 a.b", "1 ."})
	case 12:
		base := Pick(g, rewriteValues)
		return mutate(g, base)
	default:
		return Pick(g, rewriteValues)
	}
}

// shapeOK is the published contract of rules.DNSRewrite, evaluated on the
// implementation's result (the property's own oracle).
func shapeOK(d *rules.DNSRewrite) (ok bool, why string) {
	if d.NewCNAME != "" {
		if d.RCode != 0 || d.RRType != 0 || d.Value != nil {
			return false, "cname carries other fields"
		}
		return true, ""
	}
	if d.RRType != 0 && d.RCode != dns.RcodeSuccess {
		return false, "rrtype with failure rcode"
	}
	switch d.RRType {
	case dns.TypeA:
		a, isAddr := d.Value.(netip.Addr)
		if !isAddr || !a.Is4() {
			return false, "A value is not an IPv4 address"
		}
	case dns.TypeAAAA:
		a, isAddr := d.Value.(netip.Addr)
		if !isAddr || !a.Is6() {
			return false, "AAAA value is not an IPv6 address"
		}
	case dns.TypeMX:
		if v, isMX := d.Value.(*rules.DNSMX); !isMX || v == nil {
			return false, "MX value"
		}
	case dns.TypeSRV:
		if v, isSRV := d.Value.(*rules.DNSSRV); !isSRV || v == nil {
			return false, "SRV value"
		}
	case dns.TypeHTTPS, dns.TypeSVCB:
		if v, isS := d.Value.(*rules.DNSSVCB); !isS || v == nil {
			return false, "SVCB value"
		}
	case dns.TypePTR:
		s, isStr := d.Value.(string)
		if !isStr || !strings.HasSuffix(s, ".") || strings.HasSuffix(s, "..") {
			return false, "PTR value is not a fully-qualified name"
		}
	case dns.TypeTXT:
		if _, isStr := d.Value.(string); !isStr {
			return false, "TXT value is not a string"
		}
	default:
		if d.Value != nil {
			return false, "value present for a type without value"
		}
	}
	return true, ""
}

func init() {
	register("c10", &Prop{
		Gen: func(g *Gen, tier string, emit func(string)) {
			n := 30000
			if tier == "thorough" {
				n = 600000
			}
			for _, v := range rewriteValues {
				emit("v" + hx(v))
			}
			// different values with the same 32-bit hash, parsed one after the other in one process, a valid one first:
			// what a value parses to is a function of its text (djb2-xor collides on two-character infixes)
			for _, shape := range [][2]string{{"noerror;cname;", "zz.example.net"}, {"NOERROR;TXT;v=spf1 -all ", "q"}, {"NOERROR;MX;10 mx", ".example.net"}, {"", ".example.net"}, {"10.188.17", ""}, {"NOERROR;A;1.2.3.", ""}} {
				seen := map[uint32]string{}
				al := "abcdefghijklmnopqrstuvwxyz0123456789!_."
				found := 0
				for a := 0; a < len(al) && found < 3; a++ {
					for b := 0; b < len(al) && found < 3; b++ {
						v := shape[0] + string(al[a]) + string(al[b]) + shape[1]
						h := filterutil.FastHash(v)
						if o, ok := seen[h]; ok {
							found++
							emit("v" + hx(o))
							emit("v" + hx(v))
							emit("v" + hx(o))
						}
						seen[h] = v
					}
				}
			}
			for i := 0; i < n; i++ {
				emit("v" + hx(genRewriteValue(g)))
			}
		},
		Run: func(line string, st *Stats) (string, string, bool) {
			v := unhx(line[1:])
			text := "||h^$dnsrewrite=" + v
			var rule *rules.NetworkRule
			var err error
			// parsing is deterministic: parse twice and compare
			var rule2 *rules.NetworkRule
			var err2 error
			p, msg := protect(func() {
				rule, err = rules.NewNetworkRule(text, 1)
				rule2, err2 = rules.NewNetworkRule(text, 1)
			})
			if p {
				st.Inc("panic")
				return "P:" + msg, line, true
			}
			if (err == nil) != (err2 == nil) {
				return "NONDETERMINISTIC", line, true
			}
			if err != nil {
				st.Inc("rejected")
				return "E", line, false
			}
			if rule.DNSRewrite == nil {
				st.Inc("no_rewrite")
				return "nil", line, false
			}
			obs := rules.VerifDNSRewrite(rule.DNSRewrite)
			if obs != rules.VerifDNSRewrite(rule2.DNSRewrite) {
				return "NONDETERMINISTIC", line, true
			}
			if ok, why := shapeOK(rule.DNSRewrite); !ok {
				obs += "!SHAPE:" + why
			}
			st.Inc(fmt.Sprintf("accepted_rrtype_%d", rule.DNSRewrite.RRType))
			return obs, line, true
		},
	})
}
