package main

import (
	"net/netip"
	"strings"

	"github.com/AdguardTeam/urlfilter/rules"
	"golang.org/x/net/publicsuffix"
)

// C04: a rule matches iff its pattern and every modifier are satisfied.
//
// case: <rule text hex> TAB <request>      (the run phase appends the PSL entries of the request's hostnames)
// obs:  1 | 0 | E (rule rejected) | P:<panic>

func buildRequest(r Req) *rules.Request {
	if r.Kind == "url" {
		return rules.NewRequest(r.URL, r.Source, rules.RequestType(r.Type))
	}
	q := rules.NewRequestForHostname(r.Hostname)
	q.ClientName = r.ClientName
	if r.ClientIP != "" {
		if ip, err := netip.ParseAddr(r.ClientIP); err == nil {
			q.ClientIP = ip
		}
	}
	q.SortedClientTags = r.Tags
	q.DNSType = r.DNSType
	return q
}

// pslTable returns the PublicSuffix answers for the hostnames of the request.
func pslTable(q *rules.Request) string {
	var l []string
	seen := map[string]bool{}
	for _, h := range []string{q.Hostname, q.SourceHostname} {
		if seen[h] {
			continue
		}
		seen[h] = true
		s, icann := publicsuffix.PublicSuffix(h)
		l = append(l, h, s, b01(icann))
	}
	return encList(l)
}

// coupledReq builds a request that has a good chance to be matched by the rule text.
func coupledReq(g *Gen, rule string) Req {
	r := genReq(g)
	// find a pool host mentioned in the rule
	var host string
	for _, h := range hostPool {
		if strings.Contains(strings.ToLower(rule), h) && len(h) > len(host) {
			host = h
		}
	}
	if host == "" || g.Chance(1, 4) {
		return r
	}
	if g.Chance(1, 3) {
		host = Pick(g, []string{"www.", "a.b.", ""}) + host
	}
	if r.Kind == "url" {
		u := Pick(g, schemes[:4]) + "://" + host
		for _, p := range pathPool {
			if strings.Contains(rule, p) && len(p) > 1 {
				u += p
				break
			}
		}
		if !strings.Contains(u[8:], "/") {
			u += Pick(g, pathPool)
		}
		for _, f := range fragPool {
			if strings.Contains(rule, f) && g.Chance(1, 2) {
				u += f
			}
		}
		r.URL = u
		if strings.Contains(rule, "domain=") && g.Chance(2, 3) {
			i := strings.Index(rule, "domain=")
			v := rule[i+7:]
			if j := strings.IndexAny(v, ",|"); j >= 0 {
				v = v[:j]
			}
			v = strings.TrimPrefix(v, "~")
			v = strings.Replace(v, ".*", Pick(g, []string{".com", ".co.uk", ".de", ".b.notgoogle.com"}), 1)
			r.Source = "https://" + Pick(g, []string{"", "www.", "x.y."}) + v + "/page"
		}
		for _, ct := range contentTypes {
			if strings.Contains(rule, ct) && g.Chance(1, 2) {
				for i, n := range []string{"document", "subdocument", "script", "stylesheet", "object", "image", "xmlhttprequest", "media", "font", "websocket", "ping", "other"} {
					if n == ct {
						r.Type = 1 << uint(i)
					}
				}
			}
		}
	} else {
		r.Hostname = host
		for _, c := range clientNames {
			if strings.Contains(rule, c) && g.Chance(1, 2) {
				r.ClientName = c
			}
		}
		for _, c := range clientIPs {
			if strings.Contains(rule, c) && g.Chance(1, 2) {
				r.ClientIP = c
			}
		}
		for _, t := range tagPool {
			if strings.Contains(rule, t) && g.Chance(1, 2) {
				r.Tags = []string{t}
			}
		}
	}
	return r
}

func init() {
	register("c04", &Prop{
		Gen: func(g *Gen, tier string, emit func(string)) {
			n := 20000
			if tier == "thorough" {
				n = 1000000
			}
			for i := 0; i < n; i++ {
				ft, fr := focusedCase(g)
				emit(hx(ft) + "\t" + fr.Encode())
				t := genNetworkRule(g)
				if g.Chance(1, 25) {
					t = mutate(g, t)
				}
				k := 1 + g.Intn(3)
				for j := 0; j < k; j++ {
					emit(hx(t) + "\t" + coupledReq(g, t).Encode())
				}
			}
		},
		Run: func(line string, st *Stats) (string, string, bool) {
			f := strings.Split(line, "\t")
			text := unhx(f[0])
			req := decodeReq(f[1])
			q := buildRequest(req)
			mi := line + "\t" + pslTable(q)
			rule, err := rules.NewNetworkRule(text, 1)
			if err != nil {
				st.Inc("rejected")
				return "E", mi, false
			}
			var ok bool
			if p, msg := protect(func() { ok = rule.Match(q) }); p {
				st.Inc("panic")
				return "P:" + msg, mi, true
			}
			st.Inc("kind_" + req.Kind)
			if ok {
				st.Inc("matched")
			}
			if strings.Contains(text, "$") {
				st.Inc("with_modifiers")
				if ok {
					st.Inc("matched_with_modifiers")
				}
			}
			return b01(ok), mi, ok
		},
	})
}
