package main

import (
	"sort"
	"strings"
)

// Focused (rule, request) generation for C04: the pattern matches the request by construction and
// one modifier is under test, with the request value chosen to satisfy it, to miss it narrowly
// (no label boundary, parent domain, sibling, neighbouring address, other case), or at random.

func hostVariant(g *Gen, v string) string {
	v = strings.TrimPrefix(v, "~")
	if strings.HasSuffix(v, ".*") {
		v = strings.TrimSuffix(v, "*") + Pick(g, []string{"com", "co.uk", "de", "b.notgoogle.com", "zzunknown", "github.io", "ck", "org.ck"})
	}
	switch g.Intn(9) {
	case 0, 1:
		return v
	case 2:
		return Pick(g, []string{"www.", "a.b.", "x."}) + v
	case 3:
		return "not" + v
	case 4:
		if i := strings.Index(v, "."); i >= 0 {
			return v[i+1:]
		}
		return v
	case 5:
		return v + Pick(g, []string{".evil.com", "x", ".com"})
	case 6:
		return strings.ToUpper(v[:1]) + v[1:]
	case 7:
		return "sub.not" + v
	default:
		return Pick(g, hostPool)
	}
}

func pickSome(g *Gen, pool []string, minN, maxN int) []string {
	n := minN + g.Intn(maxN-minN+1)
	set := map[string]bool{}
	var out []string
	for len(out) < n {
		v := Pick(g, pool)
		if !set[v] {
			set[v] = true
			out = append(out, v)
		}
	}
	return out
}

func negSome(g *Gen, vals []string, pct int) []string {
	out := make([]string, len(vals))
	for i, v := range vals {
		if g.Chance(pct, 100) {
			v = "~" + v
		}
		out[i] = v
	}
	return out
}

func neighbourIP(g *Gen, v string) string {
	v = strings.TrimPrefix(v, "~")
	base := v
	if i := strings.Index(v, "/"); i >= 0 {
		base = v[:i]
	}
	switch g.Intn(6) {
	case 0, 1:
		if strings.Contains(base, ":") {
			return Pick(g, []string{base, strings.TrimSuffix(base, "::") + "::7", "fe80::abcd", "febf::1", "fec0::1", "2001:db8:1::9", "2001:db9::1", "::ffff:192.168.1.5", "::2"})
		}
		// same /24, same /16, next block
		p := strings.Split(base, ".")
		if len(p) == 4 {
			return Pick(g, []string{base, p[0] + "." + p[1] + "." + p[2] + ".255", p[0] + "." + p[1] + ".9.9", p[0] + ".200.1.1", "172.16.5.7", "172.16.5.8"})
		}
		return base
	case 2:
		return Pick(g, clientIPs)
	case 3:
		return ""
	default:
		return base
	}
}

func focusedCase(g *Gen) (string, Req) {
	if g.Chance(1, 25) {
		// "/hostname."-shaped patterns on hostname requests: a pattern made of host-name characters only is matched
		// against the URL "http://hostname" (so it does match), whatever its length and label shapes; any other
		// character makes the rule a bare-hostname rule, which a leading "/" can never match
		inner := Pick(g, []string{
			"sub", "a.b", "ads.tracker", strings.Repeat("a.", 31) + "ab", strings.Repeat("a.", 32) + "b", strings.Repeat("ab.", 30) + "x",
			strings.Repeat("x", 63), strings.Repeat("x", 64), strings.Repeat("x", 63) + ".y", "a..b", "-a.b", "a-.b", "a.-b", "A.B", "a_b", "a/b", "a*b",
		})
		host := inner + Pick(g, []string{".example.org", ".org", "x.org", ""})
		if g.Chance(1, 6) {
			host = "x" + host
		}
		if g.Bool() {
			return "/" + inner + ".", Req{Kind: "host", Hostname: host}
		}
		return "/" + inner + ".", Req{Kind: "url", URL: "http://" + host + "/", Type: 4}
	}
	h := Pick(g, hostPool)
	path := Pick(g, pathPool)
	kind := g.Intn(12)
	hostReq := kind >= 7 && kind <= 9 || (kind == 5 && g.Chance(1, 2))
	var pat string
	switch g.Intn(6) {
	case 0, 1:
		pat = "||" + h + "^"
	case 2:
		pat = "||" + h
	case 3:
		if hostReq {
			pat = h
		} else {
			pat = strings.SplitN(path, "?", 2)[0]
			if len(pat) < 3 || strings.ContainsAny(pat, "$") {
				pat = "||" + h + "^"
			}
		}
	case 4:
		pat = "|http://" + h
		if hostReq {
			pat = "://" + h
		}
	default:
		pat = "*" + h[len(h)/2:] + "^"
	}
	if g.Chance(1, 4) {
		pat = "@@" + pat
	}
	r := Req{Kind: "url", URL: "http://" + h + path, Type: Pick(g, requestTypes)}
	if hostReq {
		r = Req{Kind: "host", Hostname: h}
	}
	var mods []string
	switch kind {
	case 0, 1: // $domain
		pool := append(append([]string{}, hostPool...), wildcardDomains...)
		vals := negSome(g, pickSome(g, pool, 1, 4), 35)
		mods = append(mods, "domain="+strings.Join(vals, "|"))
		r.Source = "https://" + hostVariant(g, Pick(g, vals)) + "/page"
		if g.Chance(1, 10) {
			r.Source = ""
		}
		if g.Chance(1, 4) {
			// a wildcard-TLD value and, elsewhere in the same list, a plain value covering a host whose public
			// suffix is private or unknown: every value of the list must be considered, in any order
			name := Pick(g, []string{"google", "example", "foo", "tracker", "myapp"})
			host := name + "." + Pick(g, []string{"github.io", "zzunknown", "lan", "blogspot.com", "co.uk", "com"})
			vals := []string{name + ".*", host}
			if g.Bool() {
				vals = append(vals, Pick(g, hostPool))
			}
			Shuffle(g, vals)
			if g.Chance(1, 4) {
				vals[g.Intn(len(vals))] = "~" + strings.TrimPrefix(vals[g.Intn(len(vals))], "~")
			}
			mods[len(mods)-1] = "domain=" + strings.Join(vals, "|")
			r.Source = "https://" + Pick(g, []string{"", "www.", "a.b."}) + host + "/page"
		}
		if g.Chance(1, 6) {
			// a wildcard-TLD value whose name re-occurs, unaligned, inside a multi-label public suffix
			// (go.* on go.hyogo.jp): any textual pre-check must not be confused by the later occurrence
			nm, host := wildcardInSuffix(g)
			vals := []string{nm + ".*"}
			if g.Chance(1, 3) {
				vals = append(vals, Pick(g, hostPool))
				Shuffle(g, vals)
			}
			if g.Chance(1, 4) {
				vals[0] = "~" + vals[0]
			}
			mods[len(mods)-1] = "domain=" + strings.Join(vals, "|")
			r.Source = "https://" + Pick(g, []string{"", "", "www.", "a.b."}) + host + "/page"
		}
	case 2: // $denyallow on the request host (pattern must not pin the host)
		vals := pickSome(g, hostPool, 1, 3)
		mods = append(mods, "denyallow="+strings.Join(vals, "|"), "domain=example.org")
		pat = strings.TrimPrefix(path, "/")
		if len(pat) < 3 || strings.ContainsAny(pat, "$?") {
			pat = "*"
		}
		r.URL = "http://" + hostVariant(g, Pick(g, vals)) + path
		r.Source = "http://example.org/"
		if g.Chance(1, 6) {
			nm, host := wildcardInSuffix(g)
			vals = []string{nm + ".*"}
			if g.Bool() {
				vals = append(vals, Pick(g, hostPool))
				Shuffle(g, vals)
			}
			mods[0] = "denyallow=" + strings.Join(vals, "|")
			r.URL = "http://" + Pick(g, []string{"", "", "www.", "a.b."}) + host + path
		}
		if g.Chance(1, 3) {
			// hostname requests: real IP addresses are exempt from $denyallow, names that merely LOOK like addresses
			// (only hex digits, dots and colons) are not
			mods = mods[:1]
			pat = "*"
			r = Req{Kind: "host", Hostname: Pick(g, []string{"cafe.de", "ccc.de", "dead.beef", "1e100.ac", "bad.cafe", "abc.de", "1.2.3.4", "::1", "2001:db8::1", "1.2.3", "fe80::", "a.b.c.d", "example.org", Pick(g, vals)})}
		}
	case 3: // third-party
		mods = append(mods, Pick(g, []string{"third-party", "~third-party", "first-party", "~first-party"}))
		r.Source = Pick(g, []string{"", "http://" + h + "/", "http://" + hostVariant(g, h) + "/x", "https://" + Pick(g, hostPool) + "/"})
		if g.Chance(1, 4) {
			// a public suffix nested BELOW a registrable domain (s3.amazonaws.com under amazonaws.com, *.kawasaki.jp under
			// kawasaki.jp) or equal to the host: the page and the request are then different sites although one name ends
			// with the other; each side has its own registrable domain
			fam := Pick(g, [][2]string{{"amazonaws.com", "s3.amazonaws.com"}, {"amazonaws.com", "compute.amazonaws.com"}, {"kawasaki.jp", "b.kawasaki.jp"},
				{"nom.br", "x.nom.br"}, {"github.io", "github.io"}, {"blogspot.com", "blogspot.com"}, {"example.org", "example.org"}, {"co.uk", "co.uk"}})
			uh := Pick(g, []string{"", "static.", "www."}) + fam[0]
			sh := Pick(g, []string{"a.", "a.b.", "", "bucket."}) + fam[1]
			if g.Chance(1, 5) {
				uh, sh = sh, uh
			}
			r.URL = "http://" + uh + path
			r.Source = "https://" + sh + "/page"
			if strings.HasPrefix(pat, "@@") {
				pat = "@@||" + uh + "^"
			} else {
				pat = "||" + uh + "^"
			}
		}
	case 4: // content types
		ts := negSome(g, pickSome(g, contentTypes, 1, 3), 40)
		mods = append(mods, ts...)
		if g.Chance(2, 3) {
			t := strings.TrimPrefix(Pick(g, ts), "~")
			for i, n := range []string{"document", "subdocument", "script", "stylesheet", "object", "image", "xmlhttprequest", "media", "font", "websocket", "ping", "other"} {
				if n == t {
					r.Type = 1 << uint(i)
				}
			}
		}
		if g.Chance(1, 12) {
			r.Type = 0
		}
	case 5: // match-case and letter case of the URL / hostname
		if g.Chance(1, 2) {
			mods = append(mods, "match-case")
		}
		if r.Kind == "url" {
			r.URL = "http://" + h + Pick(g, []string{path, strings.ToUpper(path), strings.ToLower(path)})
			if g.Chance(1, 3) {
				pat = strings.SplitN(Pick(g, []string{path, strings.ToUpper(path), strings.ToLower(path)}), "?", 2)[0]
				if len(pat) < 3 || strings.ContainsAny(pat, "$") {
					pat = "||" + strings.ToUpper(h) + "^"
				}
			}
		} else {
			r.Hostname = Pick(g, []string{h, strings.ToUpper(h[:2]) + h[2:]})
		}
	case 7: // $dnstype
		vals := negSome(g, pickSome(g, dnsTypeNames[:8], 1, 3), 40)
		mods = append(mods, "dnstype="+strings.Join(vals, "|"))
		r.DNSType = Pick(g, dnsTypeCodes)
		if g.Chance(1, 2) {
			v := strings.ToUpper(strings.TrimPrefix(Pick(g, vals), "~"))
			codes := map[string]uint16{"A": 1, "AAAA": 28, "CNAME": 5, "MX": 15, "TXT": 16, "HTTPS": 65, "SRV": 33, "PTR": 12}
			r.DNSType = codes[v]
		}
	case 8: // $ctag
		vals := negSome(g, pickSome(g, tagPool, 1, 4), 35)
		mods = append(mods, "ctag="+strings.Join(vals, "|"))
		tags := pickSome(g, tagPool, 0, 3)
		if g.Chance(1, 2) {
			tags = append(tags, strings.TrimPrefix(Pick(g, vals), "~"))
		}
		set := map[string]bool{}
		r.Tags = nil
		for _, t := range tags {
			if !set[t] {
				set[t] = true
				r.Tags = append(r.Tags, t)
			}
		}
		sort.Strings(r.Tags)
	case 9: // $client
		if g.Chance(1, 5) {
			// subnets of different prefix lengths in one list, the shorter prefix ABOVE the client address and a longer one
			// containing it (and the other way round), in any written order: every entry is considered
			fam := Pick(g, [][3]string{{"200.0.0.0/8", "10.1.2.0/24", "10.1.2.3"}, {"172.16.0.0/12", "9.9.9.0/28", "9.9.9.9"}, {"fe80::/10", "2001:db8:1::/48", "2001:db8:1::5"},
				{"128.0.0.0/1", "10.0.0.0/8", "10.200.1.1"}, {"10.1.2.0/24", "200.0.0.0/8", "200.1.1.1"}, {"ff00::/8", "::ffff:10.0.0.0/104", "::ffff:10.1.2.3"}})
			vals := []string{fam[0], fam[1]}
			if g.Bool() {
				vals = append(vals, Pick(g, clientNets))
			}
			Shuffle(g, vals)
			if g.Chance(1, 4) {
				vals[0] = "~" + vals[0]
			}
			mods = append(mods, "client="+strings.Join(vals, "|"))
			r.ClientIP = Pick(g, []string{fam[2], fam[2], neighbourIP(g, fam[1])})
			break
		}
		n := 1 + g.Intn(4)
		var vals []string
		for i := 0; i < n; i++ {
			switch g.Intn(3) {
			case 0:
				vals = append(vals, quoteClient(g, Pick(g, clientNames)))
			case 1:
				vals = append(vals, Pick(g, clientIPs))
			default:
				vals = append(vals, Pick(g, clientNets))
			}
		}
		vals = negSome(g, vals, 30)
		mods = append(mods, "client="+strings.Join(vals, "|"))
		if g.Chance(2, 3) {
			r.ClientIP = neighbourIP(g, Pick(g, append(append([]string{}, clientNets...), clientIPs...)))
		}
		if g.Chance(1, 2) {
			r.ClientName = Pick(g, clientNames)
		}
	case 10: // separators and anchors around the host
		pat = Pick(g, []string{"||" + h + "^", "||" + h + "/", "|http://" + h + "|", h + "^", "^" + h + "^", "||" + h + "^*" + Pick(g, fragPool), h + path + "|", "|" + h})
		r.URL = Pick(g, []string{"http://", "https://sub.", "ws://x", "http://a.b."}) + h + Pick(g, []string{"", "/", ":8080/", path, "x/", ".evil.com/", "%2f", "_x"})
	default: // document-level / important / badfilter: no effect on Match except the type
		if strings.HasPrefix(pat, "@@") {
			mods = append(mods, Pick(g, []string{"elemhide", "document", "urlblock", "important", "badfilter", "jsinject"}))
		} else {
			mods = append(mods, Pick(g, []string{"important", "badfilter", "popup"}))
		}
		if g.Chance(1, 2) {
			r.Type = 1
		}
	}
	if g.Chance(1, 5) {
		mods = append(mods, genModifier(g, strings.HasPrefix(pat, "@@")))
	}
	Shuffle(g, mods)
	t := pat
	if len(mods) > 0 {
		t += "$" + strings.Join(mods, ",")
	}
	return t, r
}

// wildcardInSuffix returns a name and a host name.<suffix> such that the multi-label ICANN public suffix contains
// "name." as the tail of one of its non-final labels (or the host is an unrelated neighbour, as a control).
func wildcardInSuffix(g *Gen) (name, host string) {
	pairs := [][2]string{{"go", "hyogo.jp"}, {"co", "eco.br"}, {"ice", "police.uk"}, {"o", "co.uk"}, {"e", "ne.jp"},
		{"om", "com.au"}, {"rg", "org.uk"}, {"ov", "gov.uk"}, {"c", "ac.uk"}, {"et", "net.au"}, {"go", "go.jp"},
		// the name is the first label of a multi-label suffix: name.<tld> IS a public suffix (co.uk, com.au, ...)
		{"co", "uk"}, {"com", "au"}, {"org", "uk"}, {"net", "au"}, {"ac", "uk"}, {"go", "jp"}, {"co", "jp"}, {"com", "br"}}
	p := Pick(g, pairs)
	name, host = p[0], p[0]+"."+p[1]
	switch g.Intn(8) {
	case 0:
		host = "x" + host // not a subdomain of name.<suffix>
	case 1:
		host = p[1] // the bare suffix
	}
	return name, host
}
