#!/bin/bash
# usage: tools/sweep_counts.sh "<seeds>"  — for every seeded change and every VERIF_SEED: number of failing cases found
cd /verif
for d in seeded/*/; do
  id=$(basename $d); prop=$(python3 -c "import json;print(json.load(open('$d/meta.json'))['breaks_property'])")
  line="$id"
  for sd in $1; do
    (cd /repo && git apply /verif/seeded/$id/patch.diff) || { line="$line APPLYFAIL"; continue; }
    out=$(VERIF_SEED=$sd VERIF_NO_ESCALATE=1 VERIF_NO_FINGERPRINT=1 ./check $prop --tier quick 2>&1 | grep 'tier=')
    git -C /repo checkout -q -- .
    v=$(echo "$out" | sed 's/.*violations=\([0-9]*\).*/\1/')
    line="$line s$sd=$v"
  done
  echo "$line"
done
git -C /repo status --short
