#!/usr/bin/env python3
"""tools/manifest_add.py Cxx 'level text' 'level note' 'technique' — move a property from not_applicable to checks."""
import json, sys
pid, text, note, tech = sys.argv[1:5]
m = json.load(open('/verif/MANIFEST.json'))
m['checks'] = [c for c in m['checks'] if c['property_id'] != pid]
m['checks'].append({
    'property_id': pid,
    'quick_cmd': './check %s --tier quick' % pid,
    'thorough_cmd': './check %s --tier thorough' % pid,
    'evidence_file': 'evidence/%s.json' % pid,
    'replay_cmd_template': './check %s --replay {path}' % pid,
    'engine': 'coq-model',
    'level_claimed': {'category': 'proof', 'text': text, 'design_ref': 'DESIGN.md 8/%s' % pid},
    'level_note': note,
    'technique': tech,
})
m['not_applicable'] = [n for n in m.get('not_applicable', []) if n['property_id'] != pid]
for e in m['engines']:
    if pid not in e['serves_properties']:
        e['serves_properties'].append(pid)
        e['serves_properties'].sort()
json.dump(m, open('/verif/MANIFEST.json', 'w'), indent=1)
