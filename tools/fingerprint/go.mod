module fingerprint

go 1.22
