// Command fingerprint prints, for every function, method and package-level variable of the non-test Go files
// under a directory, a hash of its source text (comments and layout removed) and the names it refers to.
// The runner uses it to notice that the source of a function the hand-written Coq model mirrors is no longer
// the text the model was validated against.
//
//	fingerprint <repo dir>    ->  JSON {"<pkgdir>:<Recv.>Name": {"hash": "...", "refs": ["name", ...], "file": "...", "line": n}}
package main

import (
	"bytes"
	"crypto/sha256"
	"encoding/hex"
	"encoding/json"
	"fmt"
	"go/ast"
	"go/parser"
	"go/printer"
	"go/token"
	"os"
	"path/filepath"
	"sort"
	"strings"
)

type entry struct {
	Hash string   `json:"hash"`
	Refs []string `json:"refs"`
	File string   `json:"file"`
	Line int      `json:"line"`
	End  int      `json:"end"`
}

func recvName(e ast.Expr) string {
	switch t := e.(type) {
	case *ast.StarExpr:
		return recvName(t.X)
	case *ast.Ident:
		return t.Name
	case *ast.IndexExpr:
		return recvName(t.X)
	case *ast.IndexListExpr:
		return recvName(t.X)
	}
	return "?"
}

func hashNode(fset *token.FileSet, n ast.Node) string {
	var buf bytes.Buffer
	// printing a node without the file's comment list drops every comment; the printer normalises layout
	_ = printer.Fprint(&buf, fset, n)
	// the hook calls compiled in only under the verif tag are not part of the code the model mirrors
	var keep []string
	for _, l := range strings.Split(buf.String(), "\n") {
		if strings.Contains(l, "verifhook.Point(") {
			continue
		}
		keep = append(keep, strings.TrimSpace(l))
	}
	h := sha256.Sum256([]byte(strings.Join(keep, "\n")))
	return hex.EncodeToString(h[:12])
}

// alphaNormalise renames every identifier declared inside the function (parameters, results, locals, labels are left
// alone) to its position in order of first occurrence, so that renaming a local variable does not change the hash.
// refs() is taken before, on the original names.
func alphaNormalise(fn *ast.FuncDecl) {
	names := map[*ast.Object]string{}
	ast.Inspect(fn, func(x ast.Node) bool {
		id, ok := x.(*ast.Ident)
		if !ok || id.Obj == nil || id.Name == "_" {
			return true
		}
		if k := id.Obj.Kind; k != ast.Var && k != ast.Con {
			return true
		}
		if p := id.Obj.Pos(); p < fn.Pos() || p > fn.End() {
			return true
		}
		if _, seen := names[id.Obj]; !seen {
			names[id.Obj] = fmt.Sprintf("v%d", len(names)+1)
		}
		return true
	})
	ast.Inspect(fn, func(x ast.Node) bool {
		if id, ok := x.(*ast.Ident); ok && id.Obj != nil {
			if n, ok := names[id.Obj]; ok {
				id.Name = n
			}
		}
		return true
	})
}

func refs(n ast.Node) []string {
	set := map[string]bool{}
	ast.Inspect(n, func(x ast.Node) bool {
		switch t := x.(type) {
		case *ast.Ident:
			set[t.Name] = true
		case *ast.SelectorExpr:
			set[t.Sel.Name] = true
		}
		return true
	})
	out := make([]string, 0, len(set))
	for k := range set {
		out = append(out, k)
	}
	sort.Strings(out)
	return out
}

func main() {
	if len(os.Args) != 2 {
		fmt.Fprintln(os.Stderr, "usage: fingerprint <dir>")
		os.Exit(2)
	}
	root := os.Args[1]
	res := map[string]entry{}
	_ = filepath.Walk(root, func(path string, info os.FileInfo, err error) error {
		if err != nil {
			return nil
		}
		if info.IsDir() {
			b := info.Name()
			if path != root && (strings.HasPrefix(b, ".") || b == "testdata" || b == "vendor" || b == "verifhook") {
				return filepath.SkipDir
			}
			return nil
		}
		b := info.Name()
		if !strings.HasSuffix(b, ".go") || strings.HasSuffix(b, "_test.go") || strings.HasPrefix(b, "verif_") {
			return nil
		}
		fset := token.NewFileSet()
		f, perr := parser.ParseFile(fset, path, nil, 0)
		if perr != nil {
			return nil
		}
		rel, _ := filepath.Rel(root, filepath.Dir(path))
		relFile, _ := filepath.Rel(root, path)
		for _, d := range f.Decls {
			switch t := d.(type) {
			case *ast.FuncDecl:
				name := t.Name.Name
				if t.Recv != nil && len(t.Recv.List) > 0 {
					name = recvName(t.Recv.List[0].Type) + "." + name
				}
				t.Doc = nil
				rf := refs(t)
				alphaNormalise(t)
				res[rel+":"+name] = entry{hashNode(fset, t), rf, relFile, fset.Position(t.Pos()).Line, fset.Position(t.End()).Line}
			case *ast.GenDecl:
				if t.Tok != token.VAR && t.Tok != token.CONST {
					continue
				}
				for _, sp := range t.Specs {
					vs, ok := sp.(*ast.ValueSpec)
					if !ok {
						continue
					}
					vs.Doc, vs.Comment = nil, nil
					for _, nm := range vs.Names {
						if nm.Name == "_" {
							continue
						}
						// constants of an iota block depend on their position: hash the whole block for them
						var node ast.Node = vs
						if t.Tok == token.CONST && len(vs.Values) == 0 {
							node = t
						}
						res[rel+":"+nm.Name] = entry{hashNode(fset, node), refs(vs), relFile, fset.Position(vs.Pos()).Line, fset.Position(vs.End()).Line}
					}
				}
			}
		}
		return nil
	})
	enc := json.NewEncoder(os.Stdout)
	enc.SetIndent("", " ")
	_ = enc.Encode(res)
}
