#!/bin/bash
# usage: tools/verify_seed.sh <seed-id> <property> <worktree> <outdir>
# Confirms a seeded change in a scratch worktree: builds, existing suite passes, the
# demonstration fails with the change and passes without it; then files it under seeded/<id>/.
set -u
ID=$1; PROP=$2; WT=$3; OUT=$4
export GOFLAGS=-mod=mod GOPROXY=off GOSUMDB=off GOTOOLCHAIN=local
cd "$WT" || exit 2
git checkout -q -- . ; git clean -fdq
DEMO=$(ls "$OUT"/*_test.go | head -1)
DEMOCMD=$(grep -o "go test.*" "$OUT/demo_cmd.txt" | head -1)
PKGDIR=$(echo "$DEMOCMD" | awk '{print $NF}'); [ "$PKGDIR" = . ] || true
git apply "$OUT/patch.diff" || { echo "PATCH DOES NOT APPLY"; exit 1; }
go build ./... && go build -tags verif ./... || { echo "BUILD FAILS"; exit 1; }
if go test -vet=off -count=1 ./... > /tmp/seed_suite.log 2>&1; then SUITE=pass; else SUITE=FAIL; fi
cp "$DEMO" "$PKGDIR/"
if eval "$DEMOCMD" > /tmp/seed_demo_with.log 2>&1; then WITH=pass; else WITH=fail; fi
git checkout -q -- .
if eval "$DEMOCMD" > /tmp/seed_demo_without.log 2>&1; then WITHOUT=pass; else WITHOUT=fail; fi
rm -f "$PKGDIR/$(basename $DEMO)"
echo "suite_with_change=$SUITE demo_with_change=$WITH demo_without_change=$WITHOUT"
if [ "$SUITE" = pass ] && [ "$WITH" = fail ] && [ "$WITHOUT" = pass ]; then
  D=/verif/seeded/$ID; mkdir -p "$D"
  cp "$OUT/patch.diff" "$D/patch.diff"; cp "$DEMO" "$D/"; cp "$OUT/notes.md" "$D/notes.md" 2>/dev/null
  echo "$DEMOCMD" > "$D/demo_cmd.txt"
  echo "CONFIRMED -> $D"
else
  echo "NOT CONFIRMED"; tail -n 5 /tmp/seed_suite.log; tail -n 5 /tmp/seed_demo_with.log; tail -n 5 /tmp/seed_demo_without.log
fi
