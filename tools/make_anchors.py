#!/usr/bin/env python3
"""Regenerates lib/anchors.json: per property, the functions / package-level values of /repo whose SOURCE TEXT the
hand-written Coq model and the harness oracles were written and validated against, with a hash of each
(build/fingerprint: comments, layout and verif hook lines removed).

  entries   = curated list below  +  every function a seeded change of that property touches
  anchored  = closure of the entries under "refers to by name" (same package; other packages for exported,
              nearly unambiguous names)

The runner recomputes the hashes on every run: a differing hash means the correspondence between the model and that
function is no longer the one that was checked (see DESIGN.md, "Source fingerprints").  Run this script after every
commit made to /repo by the verification effort itself (hooks, fix: commits) — never to silence a check.
"""
import json, os, re, subprocess, sys, glob

ROOT = os.path.dirname(os.path.dirname(os.path.abspath(__file__)))
REPO = os.environ.get('VERIF_REPO', '/repo')

ENTRIES = {
 'C01': ['.:NetworkEngine.MatchAll', '.:NetworkEngine.AddRule', '.:NewNetworkEngine', 'lookup:ShortcutsTable.TryAdd',
         'lookup:ShortcutsTable.MatchAll', 'lookup:DomainsTable.TryAdd', 'lookup:DomainsTable.MatchAll',
         'lookup:SeqScanTable.TryAdd', 'lookup:SeqScanTable.MatchAll', 'filterutil:FastHash', 'filterutil:FastHashBetween',
         'lookup:getRuleShortcuts', 'lookup:isAnyURLShortcut', 'lookup:getSubdomains', 'lookup:shortcutLength',
         'filterlist:NewRuleScanner', 'filterlist:RuleScanner.readNextLine', 'filterlist:RuleStorageScanner.Rule'],
 'C02': ['.:NewDNSEngine', '.:DNSEngine.Match', '.:DNSEngine.MatchRequest', '.:DNSEngine.matchLookupTable', '.:DNSEngine.addRule',
         '.:DNSEngine.getRequestFromPool', 'rules:NetworkRule.IsHostLevelNetworkRule', 'rules:GetDNSBasicRule', 'rules:HostRule.Match',
         'rules:OptionHostLevelRulesOnly', '.:NetworkEngine.MatchAll', '.:NetworkEngine.AddRule', 'lookup:ShortcutsTable.TryAdd',
         'lookup:ShortcutsTable.MatchAll', 'lookup:SeqScanTable.TryAdd', 'lookup:SeqScanTable.MatchAll', 'lookup:DomainsTable.TryAdd',
         'lookup:getRuleShortcuts', 'filterutil:FastHash', 'filterutil:FastHashBetween', 'filterutil:IsDomainName', 'rules:NewHostRule',
         'rules:NewRule'],
 'C03': ['rules:patternToRegexp', 'rules:NetworkRule.preparePattern', 'rules:NetworkRule.matchPattern', 'rules:NetworkRule.shouldMatchHostname',
         'rules:specialCharReplacer', 'rules:RegexSeparator', 'rules:RegexStartURL', 'rules:RegexAnyCharacter', 'rules:NewNetworkRule'],
 'C04': ['rules:NetworkRule.Match', 'rules:NetworkRule.matchRequestDomain', 'rules:NetworkRule.matchSourceDomain', 'rules:NetworkRule.matchDNSType',
         'rules:NetworkRule.matchClientTags', 'rules:NetworkRule.matchClient', 'rules:NetworkRule.matchRequestType', 'rules:isDomainOrSubdomainOfAny',
         'rules:NewNetworkRule', 'rules:NetworkRule.loadOptions', 'rules:NetworkRule.loadOption', 'rules:parseRuleText', 'rules:loadDomains',
         'rules:loadDNSTypes', 'rules:loadCTags', 'rules:loadClients', 'rules:clients.containsAny', 'rules:NewRequest', 'rules:FillRequestForHostname'],
 'C05': ['rules:findShortcut', 'rules:findRegexpShortcut', 'rules:NetworkRule.loadShortcut', 'rules:NetworkRule.matchShortcut',
         'lookup:getRuleShortcuts', 'lookup:isAnyURLShortcut', 'lookup:ShortcutsTable.MatchAll'],
 'C06': ['rules:NewMatchingResult', 'rules:MatchingResult.GetBasicResult', 'rules:GetDNSBasicRule', 'rules:removeBadfilterRules',
         '.:Engine.MatchRequest', '.:NetworkEngine.Match', 'rules:NetworkRule.isDocumentWhitelistRule', 'rules:NetworkRule.IsGeneric'],
 'C07': ['rules:NetworkRule.IsHigherPriority', 'rules:NewMatchingResult', 'rules:GetDNSBasicRule', 'rules:NetworkRuleOption.Count',
         'rules:RequestType.Count', 'rules:NetworkRule.IsGeneric'],
 'C08': ['rules:removeBadfilterRules', 'rules:RemoveBadfilterRules', 'rules:NetworkRule.negatesBadfilter', 'rules:clients.Equal',
         'rules:NewMatchingResult', 'rules:GetDNSBasicRule', '.:DNSResult.DNSRewritesAll', 'rules:NewNetworkRule', 'rules:parseRuleText',
         'rules:NetworkRule.loadOptions', 'rules:NetworkRule.loadOption'],
 'C09': ['.:DNSResult.DNSRewrites', '.:DNSResult.DNSRewritesAll', '.:matchException', '.:removeMatchingException'],
 'C10': ['rules:loadDNSRewrite', 'rules:loadDNSRewriteShort', 'rules:loadDNSRewriteNormal', 'rules:dnsRewriteRRHandlers', 'rules:validateHost',
         'rules:strToRRType'],
 'C11': ['filterlist:NewRuleStorage', 'filterlist:RuleStorage.RetrieveRule', 'filterlist:RuleStorage.NewRuleStorageScanner',
         'filterlist:RuleStorageScanner.Scan', 'filterlist:RuleStorageScanner.Rule', 'filterlist:ruleListIdxToStorageIdx',
         'filterlist:storageIdxToRuleListIdx', 'filterlist:RuleScanner.Scan', 'filterlist:RuleScanner.Rule', 'filterlist:RuleScanner.readNextLine',
         'filterlist:StringRuleList.RetrieveRule', 'filterlist:StringRuleList.NewScanner', 'filterlist:FileRuleList.RetrieveRule',
         'filterlist:FileRuleList.NewScanner', 'filterlist:readLine', 'filterlist:NewRuleScanner', 'filterlist:NewFileRuleList'],
 'C12': ['rules:NewRule', 'rules:NewNetworkRule', 'rules:NewHostRule', 'rules:NewCosmeticRule', 'rules:NetworkRule.Match', 'rules:HostRule.Match',
         'rules:CosmeticRule.Match', 'filterlist:RuleScanner.readNextLine', 'filterlist:RuleScanner.Scan', '.:NetworkEngine.MatchAll',
         '.:DNSEngine.MatchRequest', '.:CosmeticEngine.Match', '.:NetworkEngine.Match', 'filterlist:RuleStorage.RetrieveRule',
         'filterlist:FileRuleList.RetrieveRule', 'filterlist:StringRuleList.RetrieveRule', 'filterlist:readLine'],
 'C13': ['.:NetworkEngine.MatchAll', '.:DNSEngine.MatchRequest', '.:DNSEngine.Match', '.:DNSEngine.getRequestFromPool', 'filterlist:RuleStorage.RetrieveRule',
         'filterlist:FileRuleList.RetrieveRule', 'filterlist:StringRuleList.RetrieveRule', 'rules:NetworkRule.preparePattern',
         'rules:FillRequestForHostname', 'rules:MatchingResult.GetBasicResult', 'rules:MatchingResult.GetCosmeticOption', 'rules:removeDNSRewriteRules',
         '.:DNSResult.DNSRewrites', '.:DNSResult.DNSRewritesAll', '.:Engine.MatchRequest', '.:Engine.GetCosmeticResult'],
 'C14': ['.:NetworkEngine.MatchAll', '.:DNSEngine.MatchRequest', '.:DNSEngine.getRequestFromPool', 'filterlist:RuleStorage.RetrieveRule',
         'filterlist:FileRuleList.RetrieveRule', 'filterlist:StringRuleList.RetrieveRule', 'rules:NetworkRule.preparePattern',
         'lookup:ShortcutsTable.MatchAll', 'lookup:DomainsTable.MatchAll', 'lookup:SeqScanTable.MatchAll', 'lookup:ruleIn',
         '.:Engine.MatchRequest', '.:Engine.GetCosmeticResult', '.:DNSEngine.matchLookupTable', '.:DNSEngine.Match'],
 'C15': ['.:NewCosmeticEngine', '.:CosmeticEngine.Match', '.:CosmeticEngine.addRule', '.:cosmeticLookupTable.addRule', '.:cosmeticLookupTable.findByHostname',
         '.:cosmeticLookupTable.appendMatching', '.:cosmeticLookupTable.isWhitelisted', '.:StylesResult.append', 'rules:CosmeticRule.Match',
         'rules:NewCosmeticRule', 'rules:CosmeticRule.IsGeneric'],
 'C16': ['rules:MatchingResult.GetCosmeticOption', '.:Engine.GetCosmeticResult', 'rules:NewMatchingResult', '.:Engine.MatchRequest',
         'rules:CosmeticOptionAll', 'rules:CosmeticOptionGenericCSS', 'rules:CosmeticOptionCSS', 'rules:CosmeticOptionJS'],
 'C17': ['rules:NewRequest', 'rules:NewRequestForHostname', 'rules:FillRequestForHostname', 'rules:effectiveTLDPlusOne', 'filterutil:ExtractHostname',
         'rules:maxURLLength'],
 'C18': ['rules:NewHostRule', 'rules:HostRule.Match', 'rules:splitNextByWhitespace', 'rules:NewRule', '.:DNSEngine.matchLookupTable', '.:DNSEngine.addRule',
         '.:DNSEngine.Match', 'filterutil:IsDomainName', 'filterutil:IsProbablyIP'],
 'C19': ['filterlist:RuleStorage.RetrieveRule', 'filterlist:RuleStorage.RetrieveNetworkRule', 'filterlist:RuleStorage.RetrieveHostRule',
         'filterlist:FileRuleList.RetrieveRule', 'filterlist:readLine', 'filterlist:RuleStorage.Close', 'lookup:ShortcutsTable.MatchAll',
         'lookup:DomainsTable.MatchAll', 'lookup:SeqScanTable.MatchAll', '.:DNSEngine.matchLookupTable', '.:DNSEngine.MatchRequest', '.:NetworkEngine.MatchAll'],
 'C20': ['proxy:Server.filterHTML', 'proxy:findBodyInjectionIndex', 'proxy:isMatchFound', 'proxy:headBufferSize', 'proxy:Server.buildContentScript'],
}
# names that are everywhere and resolve to nothing useful
STOP = {'String', 'Error', 'Len', 'Close', 'Text', 'GetFilterListID', 'GetID', 'init', 'main', 'New', 'Equal', 'Match', 'Scan', 'Rule'}


def fingerprints(repo):
    subprocess.run(['go', 'build', '-o', os.path.join(ROOT, 'build', 'fingerprint'), '.'], cwd=os.path.join(ROOT, 'tools', 'fingerprint'),
                   env=dict(os.environ, GOFLAGS='-mod=mod', GOPROXY='off', GOSUMDB='off', GOTOOLCHAIN='local'), check=True)
    out = subprocess.run([os.path.join(ROOT, 'build', 'fingerprint'), repo], capture_output=True, text=True, check=True).stdout
    return json.loads(out)


def bare(key):
    return key.split(':', 1)[1].split('.')[-1]


def recv(key):
    n = key.split(':', 1)[1]
    return n.split('.')[0] if '.' in n else ''


def closure(fp, entries):
    """entries + what they refer to by name: two steps inside the package, one step into other packages (from an entry
    only).  Deliberately shallow and conservative about METHOD names (go/ast has no types here): a name resolves to a
    plain function or value of that name, to a method of the SAME receiver type, or to a method of another type only
    when no other method of the package carries that name."""
    byname = {}
    for k in fp:
        byname.setdefault(bare(k), []).append(k)
    depth = {e: 0 for e in entries if e in fp}
    todo = list(depth)
    while todo:
        k = todo.pop()
        d = depth[k]
        pkg = k.split(':', 1)[0]
        if d >= 2 or pkg in ('cmd', 'examples/proxy'):
            continue
        for r in fp[k]['refs']:
            if r in STOP:
                continue
            cands = byname.get(r, [])
            same_pkg_methods = [c for c in cands if c.split(':', 1)[0] == pkg and recv(c)]
            for c in cands:
                cp = c.split(':', 1)[0]
                if cp == pkg:
                    ok = (not recv(c)) or recv(c) == recv(k) or len(same_pkg_methods) == 1
                else:
                    ok = d == 0 and r[:1].isupper() and len(cands) == 1 and cp not in ('cmd', 'examples/proxy', 'proxy')
                if ok and (c not in depth or depth[c] > d + 1):
                    depth[c] = d + 1
                    todo.append(c)
    return set(depth)


def touched_by_patch(fp, patch):
    """functions of the CURRENT tree whose line ranges intersect the old-side lines of the patch"""
    out, cur = set(), None
    for line in open(patch, errors='replace'):
        m = re.match(r'^--- a/(.*)$', line)
        if m:
            cur = m.group(1).strip()
            continue
        m = re.match(r'^@@ -(\d+)(?:,(\d+))? \+', line)
        if m and cur and cur.endswith('.go') and not cur.endswith('_test.go'):
            a = int(m.group(1)); n = int(m.group(2) or 1)
            lo, hi = a + (3 if n > 6 else 0), a + n - (3 if n > 6 else 0)      # hunks carry 3 lines of context
            for k, v in fp.items():
                if v['file'] == cur and not (v['end'] < lo or v['line'] > hi):
                    out.add(k)
    return out


def main():
    fp = fingerprints(REPO)
    anchors = {}
    for prop, ents in sorted(ENTRIES.items()):
        missing = [e for e in ents if e not in fp]
        if missing:
            print('WARNING %s: entries not found in the tree: %s' % (prop, missing), file=sys.stderr)
        ents = set(e for e in ents if e in fp)
        for d in sorted(glob.glob(os.path.join(ROOT, 'seeded', prop + '-*'))):
            pf = os.path.join(d, 'patch.diff')
            if os.path.exists(pf):
                ents |= touched_by_patch(fp, pf)
        cl = closure(fp, ents)
        anchors[prop] = {'entries': sorted(ents), 'anchored': {k: fp[k]['hash'] for k in sorted(cl)}}
        print('%s: %d entries, %d anchored' % (prop, len(ents), len(cl)))
    head = subprocess.run(['git', '-C', REPO, 'rev-parse', 'HEAD'], capture_output=True, text=True).stdout.strip()
    json.dump({'repo_commit': head, 'props': anchors}, open(os.path.join(ROOT, 'lib', 'anchors.json'), 'w'), indent=1, sort_keys=True)


if __name__ == '__main__':
    main()
