#!/bin/bash
# usage: tools/try_seed.sh <seed-id> <property> [tier]  — applies seeded/<id>/patch.diff to /repo, runs the check, reverts.
ID=$1; PROP=$2; TIER=${3:-quick}
cd /repo && git apply /verif/seeded/$ID/patch.diff || exit 2
(cd /verif && ./check $PROP --tier $TIER 2>&1 | tail -n 6)
git -C /repo checkout -q -- .
git -C /repo status --short
