#!/bin/bash
# usage: tools/psweep.sh <scratch-dir> <seed-id>...
# Measurement only: applies each seeded change to a PRIVATE copy of /repo under <scratch-dir> (outside /repo and
# /verif, removed at the end) and runs the quick check of the property it breaks against that copy (VERIF_REPO), the
# differential half alone.  Several instances can run side by side on different scratch directories; /repo itself is
# never touched.  The registered checks never set VERIF_REPO.
WT=$1; shift
rm -rf "$WT"; cp -r /repo "$WT"
cd /verif
for id in "$@"; do
  prop=$(python3 -c "import json;print(json.load(open('seeded/$id/meta.json'))['breaks_property'])")
  (cd "$WT" && git apply /verif/seeded/$id/patch.diff) || { echo "$id APPLYFAIL"; continue; }
  out=$(VERIF_REPO=$WT VERIF_SEED=${VERIF_SEED:-1} VERIF_NO_FINGERPRINT=1 VERIF_NO_INCOQ=1 ./check $prop --tier quick 2>&1)
  (cd "$WT" && git checkout -q -- . && git clean -fdq)
  if echo "$out" | grep -q "^VIOLATION property=$prop"; then
    kind=$(echo "$out" | grep "^VIOLATION" | grep -q no-failing-input-found && echo "no-failing-input-found" || echo "failing-input")
    n=$(echo "$out" | grep 'tier=' | sed 's/.*violations=\([0-9]*\).*/\1/')
    echo "$id $prop detected ($kind) n=$n"
  else echo "$id $prop MISSED"; fi
done
rm -rf "$WT"
