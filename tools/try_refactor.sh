#!/bin/bash
# usage: tools/try_refactor.sh Rnn  — applies a BEHAVIOUR-PRESERVING refactor (refactors/Rnn/patch.diff, written by a
# sub-agent that saw nothing of /verif) to /repo and runs every quick check twice: the differential half alone (it
# must stay silent: any failing input here is a false alarm of an oracle or a real difference the agent overlooked),
# and with the source-fingerprint tie (expected: "no-failing-input-found" for the properties whose anchored functions
# were restructured, nothing for the others).  Reverts /repo afterwards.
ID=$1
cd /repo && git apply /verif/refactors/$ID/patch.diff || exit 2
cd /verif
alarms=""; unshown=""
for n in 01 02 03 04 05 06 07 08 09 10 11 12 13 14 15 16 17 18 19 20; do
  out=$(VERIF_NO_FINGERPRINT=1 VERIF_NO_ESCALATE=1 ./check C$n --tier quick 2>&1)
  if echo "$out" | grep -q "^VIOLATION"; then alarms="$alarms C$n"; echo "$out" | grep -E "first disagreement|implementation:|model/spec:|PROBLEM" | cut -c1-400; fi
  fp=$(python3 - "$n" <<'PY'
import json,sys,subprocess
sys.path.insert(0,'/verif/lib')
import runner
r=runner.source_fingerprints('C'+sys.argv[1])
print(','.join(r.get('changed',[])))
PY
)
  [ -n "$fp" ] && unshown="$unshown C$n($fp)"
done
git -C /repo checkout -q -- .
echo "$ID differential-alarms:[${alarms# }] fingerprint-flags:[${unshown# }]"
python3 - "$ID" "$alarms" "$unshown" <<'PY'
import json,sys
json.dump({'id':sys.argv[1],'differential_half_alarms':sys.argv[2].split(),'fingerprint_tie_reports_no_longer_shown':sys.argv[3].split()},open('/verif/refactors/%s/result.json'%sys.argv[1],'w'),indent=1)
PY
git -C /repo status --short
