#!/bin/bash
# usage: tools/sweep_seeds.sh [tier]  — tries every seeded change against the check of the property it breaks
# and records the outcome in seeded/<id>/meta.json (detected_by_checks).
TIER=${1:-quick}
cd /verif
for d in seeded/*/; do
  id=$(basename $d); prop=$(python3 -c "import json;print(json.load(open('$d/meta.json'))['breaks_property'])")
  out=$(VERIF_NO_FINGERPRINT=1 bash tools/try_seed.sh $id $prop $TIER 2>&1)   # the differential half alone (the fingerprint tie would flag every seed)
  if echo "$out" | grep -q "^VIOLATION property=$prop"; then
    kind=$(echo "$out" | grep "^VIOLATION" | grep -q no-failing-input-found && echo "no-failing-input-found" || echo "failing-input")
    res="detected ($kind)"; det="[\"./check $prop --tier $TIER: $kind\"]"
  else res="MISSED"; det="[]"; fi
  echo "$id $prop $res"
  python3 - <<PY
import json
p='/verif/seeded/$id/meta.json'; m=json.load(open(p)); m['detected_by_checks']=$det; json.dump(m,open(p,'w'),indent=1)
PY
done
git -C /repo status --short
