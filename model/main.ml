(* Generic driver around the extracted model: one case per input line, one
   observation per output line.  [byte] is extracted as an enumeration of 256
   constant constructors in order x00..xff, i.e. the immediate integers 0..255. *)
let byte_of_char (c : char) : Ex.byte = Obj.magic (Char.code c)
let char_of_byte (b : Ex.byte) : char = Char.chr (Obj.magic b : int)

let () =
  (* sanity check of the representation assumption *)
  assert (byte_of_char 'A' = Ex.X41 && byte_of_char '\255' = Ex.Xff && byte_of_char '\000' = Ex.X00);
  let buf = Buffer.create 65536 in
  (try
     while true do
       let l = input_line stdin in
       let n = String.length l in
       let rec build i acc = if i < 0 then acc else build (i - 1) (byte_of_char l.[i] :: acc) in
       let out = Ex.run_case (build (n - 1) []) in
       Buffer.clear buf;
       List.iter (fun b -> Buffer.add_char buf (char_of_byte b)) out;
       Buffer.add_char buf '\n';
       print_string (Buffer.contents buf)
     done
   with End_of_file -> ());
  flush stdout
