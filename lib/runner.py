"""Generic check runner (see /verif/check and DESIGN.md sections 3, 5, 6)."""
import argparse, fcntl, hashlib, json, os, re, shutil, subprocess, sys, time, binascii

ROOT = os.path.dirname(os.path.dirname(os.path.abspath(__file__)))
BUILD = os.path.join(ROOT, 'build')
COQ = os.path.join(ROOT, 'coq')
REPO = os.environ.get('VERIF_REPO', '/repo')

import props as PROPS

GOENV = dict(os.environ, GOFLAGS='-mod=mod', GOPROXY='off', GOSUMDB='off', GOTOOLCHAIN='local',
             CGO_ENABLED=os.environ.get('CGO_ENABLED', '0'))


def sh(cmd, cwd=None, env=None, timeout=3600, stdin=None, stdout=subprocess.PIPE):
    p = subprocess.run(cmd, cwd=cwd, env=env, timeout=timeout, stdin=stdin, stdout=stdout,
                       stderr=subprocess.STDOUT, text=True)
    return p.returncode, (p.stdout or '')


class Lock:
    def __init__(self, name):
        os.makedirs(BUILD, exist_ok=True)
        self.path = os.path.join(BUILD, name)

    def __enter__(self):
        self.f = open(self.path, 'w')
        fcntl.flock(self.f, fcntl.LOCK_EX)

    def __exit__(self, *a):
        fcntl.flock(self.f, fcntl.LOCK_UN)
        self.f.close()


# ---------------------------------------------------------------- Coq side

def build_coq():
    """Full .vo build (incremental).  Returns (ok, log)."""
    with Lock('coq.lock'):
        rc, out = sh(['sh', os.path.join(COQ, 'build.sh')], timeout=3000)
    return rc == 0, out


def check_theorems(prop):
    """Re-run coqc on Properties/<prop>.v and read Print Assumptions.  Returns dict."""
    path = os.path.join(COQ, 'theories', 'Properties', prop + '.v')
    res = {'file': path, 'theorems': [], 'ok': False, 'log': ''}
    if not os.path.exists(path):
        res['log'] = 'missing ' + path
        return res
    src = open(path).read()
    src_nc = re.sub(r'\(\*.*?\*\)', '', src, flags=re.S)
    names = re.findall(r'^\s*(?:Theorem|Corollary|Lemma)\s+([A-Za-z0-9_\']+)', src_nc, flags=re.M)
    printed = re.findall(r'^\s*Print Assumptions\s+([A-Za-z0-9_\']+)\s*\.', src_nc, flags=re.M)
    bad = re.findall(r'\b(Admitted|admit|Axiom|Parameter|Conjecture|Abort)\b', src_nc)
    with Lock('coq.lock'):
        rc, out = sh(['coqc', '-Q', 'theories', 'UF', '-w', '-notation-overridden',
                      os.path.join('theories', 'Properties', prop + '.v')], cwd=COQ, timeout=1800)
    res['log'] = out[-4000:]
    # split output into one block per Print Assumptions
    blocks = []
    cur = None
    for line in out.splitlines():
        if line.startswith('Closed under the global context'):
            blocks.append([])
            cur = None
        elif line.startswith('Axioms:'):
            cur = []
            blocks.append(cur)
        elif cur is not None:
            m = re.match(r'^([A-Za-z0-9_\.\']+)\s*:', line)
            if m:
                cur.append(m.group(1))
    allowed = set(PROPS.ALLOWED_AXIOMS)
    ths = []
    for i, n in enumerate(names):
        t = {'name': n, 'printed': n in printed, 'axioms': None, 'discharged': False}
        if n in printed:
            j = printed.index(n)
            if rc == 0 and j < len(blocks):
                t['axioms'] = blocks[j]
                t['discharged'] = all(a.split('.')[-1] in allowed or a in allowed for a in blocks[j])
        ths.append(t)
    res['theorems'] = ths
    res['ok'] = (rc == 0 and not bad and len(names) > 0 and all(t['discharged'] for t in ths)
                 and len(blocks) == len(printed))
    if bad:
        res['log'] += '\nforbidden keywords in property file: %s' % bad
    return res


def tree_hash(paths):
    h = hashlib.sha256()
    for p in sorted(paths):
        h.update(p.encode())
        with open(p, 'rb') as f:
            h.update(f.read())
    return h.hexdigest()


def build_model(prop):
    """Extract Run/Run<prop>.v to OCaml and compile the driver.  Returns (ok, exe, log)."""
    d = os.path.join(BUILD, 'model', prop)
    os.makedirs(d, exist_ok=True)
    srcs = []
    for sub in ('Base', 'Model', 'Run'):
        sd = os.path.join(COQ, 'theories', sub)
        if os.path.isdir(sd):
            srcs += [os.path.join(sd, f) for f in os.listdir(sd) if f.endswith('.v')]
    ex = os.path.join(COQ, 'extract', prop + '.v')
    srcs += [ex, os.path.join(ROOT, 'model', 'main.ml')]
    stamp = tree_hash(srcs)
    exe = os.path.join(d, 'model')
    sf = os.path.join(d, 'stamp')
    with Lock('model_%s.lock' % prop):
        if os.path.exists(exe) and os.path.exists(sf) and open(sf).read() == stamp:
            return True, exe, 'cached'
        rc, out = sh(['coqc', '-Q', os.path.join(COQ, 'theories'), 'UF', ex], cwd=d, timeout=1800)
        if rc != 0:
            return False, exe, out
        shutil.copy(os.path.join(ROOT, 'model', 'main.ml'), os.path.join(d, 'main.ml'))
        rc, out2 = sh(['ocamlfind', 'ocamlopt', '-O3', '-w', '-a', 'Ex.mli', 'Ex.ml', 'main.ml', '-o', 'model'],
                      cwd=d, timeout=1800)
        if rc != 0:
            rc, out2 = sh(['ocamlfind', 'ocamlopt', '-w', '-a', 'Ex.mli', 'Ex.ml', 'main.ml', '-o', 'model'],
                          cwd=d, timeout=1800)
        if rc != 0:
            return False, exe, out + out2
        open(sf, 'w').write(stamp)
    return True, exe, out + out2


def source_fingerprints(prop):
    """Hashes (comments, layout and verif hook lines removed) of the functions and package-level values of /repo that
    the model of [prop] mirrors (lib/anchors.json, written by tools/make_anchors.py), compared with the current tree."""
    out = {'anchored': 0, 'changed': [], 'available': False}
    try:
        anchors = json.load(open(os.path.join(ROOT, 'lib', 'anchors.json')))
        exe = os.path.join(BUILD, 'fingerprint')
        src = os.path.join(ROOT, 'tools', 'fingerprint')
        if not os.path.exists(exe) or os.path.getmtime(exe) < os.path.getmtime(os.path.join(src, 'main.go')):
            with Lock('fingerprint.lock'):
                rc, log = sh(['go', 'build', '-o', exe, '.'], cwd=src, env=GOENV, timeout=300)
            if rc != 0:
                return out
        rc, txt = sh([exe, REPO], timeout=120)
        if rc != 0:
            return out
        cur = json.loads(txt[txt.index('{'):])
        want = anchors['props'].get(prop, {}).get('anchored', {})
        out.update({'anchored': len(want), 'available': True, 'baseline_commit': anchors.get('repo_commit', '')[:12]})
        for k, h in sorted(want.items()):
            if k not in cur:
                out['changed'].append(k + ' (gone)')
            elif cur[k]['hash'] != h:
                out['changed'].append(k)
    except Exception as e:       # the fingerprint tie is an addition: its absence must not break a check
        out['error'] = str(e)[:200]
    return out


def build_harness(race=False, work=None):
    """Build the Go harness against /repo's working tree (-tags verif); with race=True under the race detector."""
    exe = os.path.join(BUILD, 'harness-race' if race else 'harness')
    hd = os.path.join(ROOT, 'harness')
    if REPO != '/repo' and work:
        # measurement only (seed sweeps run in parallel against scratch copies of the repository, VERIF_REPO): a private
        # copy of the harness module pointing at that copy; registered checks never set VERIF_REPO
        hd2 = os.path.join(work, 'harness-src')
        shutil.copytree(hd, hd2)
        gm = open(os.path.join(hd2, 'go.mod')).read().replace('=> /repo', '=> ' + REPO)
        open(os.path.join(hd2, 'go.mod'), 'w').write(gm)
        hd, exe = hd2, os.path.join(work, 'harness-exe')
    cmd = ['go', 'build', '-tags', 'verif']
    env = GOENV
    if race:
        cmd.append('-race')
        env = dict(GOENV, CGO_ENABLED='1')
    with Lock('harness-race.lock' if race else 'harness.lock'):
        rc, out = sh(cmd + ['-o', exe, '.'], cwd=hd, env=env, timeout=1800)
    return rc == 0, exe, out


# ---------------------------------------------------------------- running

def run_model(exe, model_in, model_out, shards=8):
    lines = open(model_in).read().split('\n')
    if lines and lines[-1] == '':
        lines.pop()
    n = len(lines)
    shards = max(1, min(shards, n // 50 + 1))
    procs = []
    per = (n + shards - 1) // shards if n else 0
    tmp = []
    for k in range(shards):
        part = lines[k * per:(k + 1) * per]
        pi = '%s.%d' % (model_in, k)
        po = '%s.%d' % (model_out, k)
        open(pi, 'w').write('\n'.join(part) + ('\n' if part else ''))
        tmp.append((pi, po))
        cmd = 'ulimit -s unlimited 2>/dev/null; exec "%s" < "%s" > "%s"' % (exe, pi, po)
        procs.append(subprocess.Popen(['bash', '-c', cmd], stderr=subprocess.PIPE))
    errs = ''
    ok = True
    for p in procs:
        _, e = p.communicate()
        if p.returncode != 0:
            ok = False
            errs += (e or b'').decode(errors='replace')[-2000:]
    with open(model_out, 'w') as out:
        for pi, po in tmp:
            if os.path.exists(po):
                out.write(open(po).read())
                os.remove(po)
            os.remove(pi)
    return ok, errs


def coq_string(s):
    return '"' + s.replace('"', '""') + '"'


def in_coq_sample(prop, cfg, work, pairs, k=24):
    """Evaluate run_case on up to k (model input, implementation observation) pairs inside Coq.  Running out of stack or
    memory while Coq reads or evaluates a large literal is not a disagreement: the sample is halved (smallest cases
    first) and, if it still cannot be evaluated, reported as not evaluated."""
    step = max(1, len(pairs) // k)
    sample = pairs[::step][:k]
    mod = cfg.get('run_module', 'Run' + prop)
    vf = os.path.join(work, 'InCoq%s.v' % prop)
    res = {'n': 0, 'ok': True, 'mismatches': 0, 'log': '', 'not_evaluated': ''}
    while sample:
        with open(vf, 'w') as f:
            f.write('From Coq Require Import List. Import ListNotations.\n')
            f.write('From UF Require Import Base.Lit Base.Bytes Run.%s.\n' % mod)
            for i, (a, b) in enumerate(sample):
                f.write('Definition c%d : bytes * bytes := ($%s, $%s).\n' % (i, coq_string(a), coq_string(b)))
            f.write('Definition cases : list (bytes * bytes) := [%s].\n' % '; '.join('c%d' % i for i in range(len(sample))))
            f.write('Definition mismatches := Eval vm_compute in\n'
                    '  length (filter (fun c => negb (bytes_eqb (run_case (fst c)) (snd c))) cases).\n')
            f.write('Print mismatches.\n')
        with Lock('coq.lock'):
            rc, out = sh(['bash', '-c', 'ulimit -s unlimited 2>/dev/null; exec coqc -Q "$0" UF -w -notation-overridden "$1"',
                          os.path.join(COQ, 'theories'), vf], cwd=work, timeout=1800)
        m = re.search(r'mismatches\s*=\s*(\d+)', out)
        if rc != 0 and re.search(r'Stack overflow|Out of memory|Stack_overflow|Out_of_memory', out):
            sample = sorted(sample, key=lambda ab: len(ab[0]))[:len(sample) // 2]
            res['not_evaluated'] = 'Coq ran out of stack or memory on the larger cases of the sample; evaluated the smaller ones'
            continue
        res.update({'n': len(sample), 'ok': rc == 0 and m is not None, 'mismatches': int(m.group(1)) if m else None, 'log': out[-2000:]})
        return res
    res['not_evaluated'] = 'Coq ran out of stack or memory even on a single case of the sample'
    return res


def decode_case(line):
    """Human-readable rendering of a case line (hex fields decoded when printable)."""
    out = []
    for f in line.split('\t'):
        out.append(decode_field(f))
    return out


def decode_field(f):
    def dh(h):
        try:
            b = binascii.unhexlify(h)
            s = b.decode('latin-1')
            return ''.join(c if 32 <= ord(c) < 127 else '\\x%02x' % ord(c) for c in s)
        except Exception:
            return None
    if f == '' or len(f) > 4000:
        return f[:200] + ('...' if len(f) > 200 else '')
    if re.fullmatch(r'(?:[0-9a-f]{2})+', f) and len(f) >= 4:
        d = dh(f)
        if d is not None:
            return d
    if re.fullmatch(r'x(?:[0-9a-f]{2})*(?:,x(?:[0-9a-f]{2})*)*', f):
        return [dh(p[1:]) for p in f.split(',')]
    if ';' in f or '|' in f:
        sep = ';' if ';' in f else '|'
        return [decode_field(p) for p in f.split(sep)]
    return f


def load_known():
    p = os.path.join(ROOT, 'known_findings.json')
    if not os.path.exists(p):
        return []
    return json.load(open(p)).get('entries', [])


def match_finding(entries, prop, case_line, go_obs, model_obs):
    text = json.dumps(decode_case(case_line)) + ' ' + case_line
    for e in entries:
        if e.get('kind') != 'finding' or e.get('property') != prop:
            continue
        m = e.get('match', {})
        subs = m.get('case_contains', [])
        if subs and all(s in text for s in subs):
            return e
    return None


def main(argv):
    ap = argparse.ArgumentParser()
    ap.add_argument('prop')
    ap.add_argument('--tier', default=os.environ.get('VERIF_TIER', 'quick'))
    ap.add_argument('--replay', default=None)
    ap.add_argument('--seed', type=int, default=None)
    ap.add_argument('--keep', action='store_true')
    a = ap.parse_args(argv)
    prop = a.prop.upper()
    tier = a.tier if a.tier in ('quick', 'thorough') else 'quick'
    seed = a.seed if a.seed is not None else int(os.environ.get('VERIF_SEED', '1') or 1)
    cfg = PROPS.PROPS[prop]
    t0 = time.time()
    work = os.path.join(BUILD, 'run', '%s-%s-%d-%d' % (prop, tier, seed, os.getpid()))
    # scratch directories of earlier runs of this property whose process is gone (kept after a violation for
    # inspection; the replay file under replays/ is what matters): remove them, disk space is limited
    try:
        for d in os.listdir(os.path.join(BUILD, 'run')):
            m = re.match(r'^%s-(quick|thorough)-\d+-(\d+)$' % prop, d)
            if m and not os.path.exists('/proc/%s' % m.group(2)):
                shutil.rmtree(os.path.join(BUILD, 'run', d), ignore_errors=True)
    except OSError:
        pass
    os.makedirs(work, exist_ok=True)
    os.makedirs(os.path.join(ROOT, 'evidence'), exist_ok=True)
    os.makedirs(os.path.join(ROOT, 'replays'), exist_ok=True)

    problems = []      # broken obligations / correspondences without a failing input (yet)
    violations = []    # concrete failing inputs
    known_hits = []

    # (a) proofs
    okc, coqlog = build_coq()
    if not okc:
        problems.append({'what': 'coq build failed', 'log': coqlog[-3000:]})
    th = check_theorems(prop)
    if not th['ok']:
        problems.append({'what': 'theorems of Properties/%s.v not all closed' % prop,
                         'theorems': th['theorems'], 'log': th['log'][-3000:]})

    # independent re-check of the compiled proofs (thorough tier only: about a minute per property file)
    coqchk = None
    if tier == 'thorough' and not a.replay and not os.environ.get('VERIF_NO_COQCHK'):
        with Lock('coq.lock'):
            rcc, outc = sh(['coqchk', '-silent', '-o', '-Q', 'theories', 'UF', 'UF.Properties.%s' % prop], cwd=COQ, timeout=6000)
        summary = outc[outc.find('CONTEXT SUMMARY'):] if 'CONTEXT SUMMARY' in outc else outc[-2000:]
        axioms_none = bool(re.search(r'\* Axioms:\s*<none>', summary))
        coqchk = {'cmd': 'coqchk -silent -o -Q theories UF UF.Properties.%s' % prop, 'exit': rcc,
                  'axioms_none': axioms_none, 'summary': re.sub(r'\s+', ' ', summary)[:1500]}
        if rcc != 0 or not axioms_none:
            problems.append({'what': 'coqchk does not accept Properties/%s.vo closed (exit %d)' % (prop, rcc), 'log': summary[-2000:]})

    # (b) correspondence
    okm, mexe, mlog = build_model(prop)
    if not okm:
        problems.append({'what': 'model extraction/compilation failed', 'log': mlog[-3000:]})
    okh, hexe, hlog = build_harness(race=bool(cfg.get('race')), work=work)
    if not okh:
        problems.append({'what': 'harness does not build against /repo (hooks or API changed)', 'log': hlog[-3000:]})

    # (c) source fingerprints: is the text of the functions the model mirrors still the text it was validated against?
    fpr = source_fingerprints(prop)
    if fpr.get('changed') and not os.environ.get('VERIF_NO_FINGERPRINT'):
        problems.append({'what': 'the source of %d function(s) the model of %s mirrors is no longer the text the model and its '
                                 'oracles were validated against: %s' % (len(fpr['changed']), prop, ', '.join(fpr['changed'][:12])),
                         'functions': fpr['changed'],
                         'log': 'correspondence (model <-> these functions) no longer checked; baseline: lib/anchors.json @ %s' % fpr.get('baseline_commit', '?')})

    hname = cfg.get('harness', prop.lower())
    state = {'stats': {}, 'n_eval': 0, 'n_nt': 0, 'n_unsup': 0, 'distinct_nt': set(), 'samples': [],
             'unsup_reasons': {}, 'agree': []}

    def correspond(tier_used, tag):
        """Generate (or replay) cases, run the implementation and the model, compare.  Appends to
        problems / violations / known_hits and updates the counters."""
        nonlocal_stats = state
        cases = os.path.join(work, 'cases%s.txt' % tag)
        goout = os.path.join(work, 'go%s.out' % tag)
        modelin = os.path.join(work, 'model_in%s.txt' % tag)
        modelout = os.path.join(work, 'model%s.out' % tag)
        statsf = os.path.join(work, 'stats%s.json' % tag)
        with open(cases, 'w') as cf:
            if a.replay:
                rp = json.load(open(a.replay))
                for l in rp.get('cases', []):
                    cf.write(l + '\n')
            else:
                cdir = os.path.join(ROOT, 'corpus', prop)
                if os.path.isdir(cdir):
                    for fn in sorted(os.listdir(cdir)):
                        if fn.endswith('.txt'):
                            for l in open(os.path.join(cdir, fn)):
                                l = l.rstrip('\n')
                                if l and not l.startswith('#'):
                                    cf.write(l + '\n')
        if not a.replay:
            gen_tmp = cases + '.gen'
            rc, out = sh([hexe, 'gen', hname, '-seed', str(seed), '-tier', tier_used, '-out', gen_tmp], timeout=3000)
            if rc != 0:
                problems.append({'what': 'harness gen failed', 'log': out[-3000:]})
                return
            with open(cases, 'a') as cf:
                cf.write(open(gen_tmp).read())
            os.remove(gen_tmp)
        runenv = dict(os.environ)
        if cfg.get('race'):
            racelog = os.path.join(work, 'race' + tag)
            runenv['GORACE'] = 'log_path=%s halt_on_error=0 exitcode=0 history_size=3' % racelog
            runenv['VERIF_RACE_LOG'] = racelog
        rc, out = sh([hexe, 'run', hname, '-in', cases, '-out', goout, '-modelin', modelin, '-stats', statsf],
                     env=runenv, timeout=cfg.get('run_timeout', 3000))
        if rc != 0:
            # the harness itself crashed: an uncaught failure of the implementation under test (a fatal runtime error
            # cannot be recovered).  The harness keeps the number of the case it is exercising in a small file: that case
            # is the failing input
            try:
                idx = int(open(goout + '.progress').read().split()[0])
                cl0 = [l for l in open(cases).read().split('\n') if l != '']
                tail = [l for l in out.strip().split('\n') if l.strip()]
                why = next((l for l in tail if l.startswith('fatal error') or l.startswith('panic:')), tail[-1] if tail else '')
                violations.append({'index': idx, 'case': cl0[idx], 'go': '!PROCESS-ABORTED (exit %d): %s' % (rc, why[:300]), 'model': '(not reached)'})
            except Exception:
                problems.append({'what': 'harness run failed (exit %d)' % rc, 'log': out[-3000:]})
            return
        st = json.load(open(statsf))
        for k, v in st.get('counters', {}).items():
            state['stats'][k] = state['stats'].get(k, 0) + v
        okr, errs = run_model(mexe, modelin, modelout, shards=cfg.get('shards', 8))
        if not okr:
            problems.append({'what': 'model driver failed', 'log': errs})
            return
        cl = open(cases).read().split('\n')
        gl = open(goout).read().split('\n')
        ml = open(modelout).read().split('\n')
        for x in (cl, gl, ml):
            if x and x[-1] == '':
                x.pop()
        cl = [l for l in cl if l != '']
        if not (len(cl) == len(gl) == len(ml)):
            problems.append({'what': 'line count mismatch cases=%d go=%d model=%d' % (len(cl), len(gl), len(ml))})
            return
        known = load_known()
        mi_lines = open(modelin).read().split('\n')
        for i, (c, g, m) in enumerate(zip(cl, gl, ml)):
            state['n_eval'] += 1
            nt, _, obs = g.partition('\t')
            if m.startswith('U'):
                state['n_unsup'] += 1
                state['unsup_reasons'][m[:40]] = state['unsup_reasons'].get(m[:40], 0) + 1
                if re.search(r'![A-Z][A-Z-]+', obs):
                    # the property's own oracle, evaluated by the harness on the
                    # implementation, failed on an input the model declines
                    violations.append({'index': i, 'case': c, 'go': obs, 'model': m})
                continue
            if nt == '1':
                state['n_nt'] += 1
                state['distinct_nt'].add(hashlib.md5(c.encode()).digest())
            if len(state['samples']) < 3 and nt == '1' and (i % 7 == 0 or len(cl) < 30):
                state['samples'].append({'case': decode_case(c), 'go': obs[:300], 'model': m[:300]})
            if obs == m and nt == '1' and len(mi_lines[i]) < 20000:
                state['agree'].append((mi_lines[i], obs))
            if obs != m:
                f = match_finding(known, prop, c, obs, m)
                if f is not None:
                    known_hits.append((f, c))
                else:
                    violations.append({'index': i, 'case': c, 'go': obs, 'model': m})

    searched = None
    if okm and okh:
        correspond(tier, '')
        # A proof obligation (or a build) is broken but the quick cases show no failing input: search for one
        # with the thorough generators before reporting no-failing-input-found.
        if problems and not violations and tier == 'quick' and not a.replay and not os.environ.get('VERIF_NO_ESCALATE'):
            searched = 'thorough generators'
            correspond('thorough', '-search')

    # (c) a sample of the agreeing non-trivial cases is re-evaluated INSIDE Coq (vm_compute on Run/Run<prop>.run_case,
    #     no extraction, no OCaml): the kernel-evaluated model must give the implementation's observation too
    incoq = None
    if okm and okh and not violations and state['agree'] and not os.environ.get('VERIF_NO_INCOQ'):
        incoq = in_coq_sample(prop, cfg, work, state['agree'], k=cfg.get('incoq_k', 24))
        if incoq.get('mismatches') or not incoq.get('ok'):
            problems.append({'what': 'in-Coq evaluation of the model (vm_compute) does not reproduce the observations '
                                     'the extracted model and the implementation agree on', 'log': incoq.get('log', '')[-2000:]})

    stats = state['stats']
    n_eval, n_nt, n_unsup = state['n_eval'], state['n_nt'], state['n_unsup']
    distinct_nt, samples, unsup_reasons = state['distinct_nt'], state['samples'], state['unsup_reasons']

    wall = time.time() - t0
    # ---- report
    rc_final = 0
    seen = set()
    for f, c in known_hits:
        if f.get('id') in seen:
            continue
        seen.add(f.get('id'))
        print('KNOWN-FINDING: property=%s %s' % (prop, f.get('what', f.get('id', ''))))
    if violations:
        rc_final = 1
        # prefer a disagreement that carries a concrete failing input found on the implementation side
        violations.sort(key=lambda x: (0 if re.search(r'![A-Z][A-Z-]+', x['go']) else 1, x['index']))
        v = violations[0]
        rp = os.path.join(ROOT, 'replays', '%s-%s-%d.json' % (prop, tier, seed))
        json.dump({'property': prop, 'kind': 'failing-input',
                   'cases': [x['case'] for x in violations[:20]],
                   'first': {'case_decoded': decode_case(v['case']), 'implementation': v['go'],
                             'model_and_spec': v['model']},
                   'n_disagreements': len(violations),
                   'theorems': [t['name'] for t in th['theorems']],
                   'how_to_replay': './check %s --replay %s' % (prop, rp)}, open(rp, 'w'), indent=1)
        print('first disagreement: case=%s\n  implementation: %s\n  model/spec:     %s' % (
            json.dumps(decode_case(v['case']))[:1500], v['go'][:600], v['model'][:600]))
        print('VIOLATION property=%s replay=%s' % (prop, rp))
    elif problems:
        rc_final = 1
        rp = os.path.join(ROOT, 'replays', '%s-%s-%d-unchecked.json' % (prop, tier, seed))
        json.dump({'property': prop, 'kind': 'no-failing-input-found',
                   'no_longer_checks': problems,
                   'searched_for_failing_input_with': searched or ('the %s generators' % tier),
                   'theorems': th['theorems']}, open(rp, 'w'), indent=1)
        for p in problems:
            print('PROBLEM: %s' % p['what'])
            if p.get('log'):
                print(p['log'][-1500:])
        print('VIOLATION property=%s replay=%s no-failing-input-found' % (prop, rp))

    n_obl = len(th['theorems'])
    n_dis = sum(1 for t in th['theorems'] if t['discharged'])
    axioms = sorted({a for t in th['theorems'] for a in (t['axioms'] or [])})
    ev = {
        'property_id': prop, 'tier': tier, 'seed': seed, 'level': 'proof',
        'coverage': {
            'obligations': n_obl, 'discharged': n_dis,
            'theorems': [{'name': t['name'], 'axioms': t['axioms']} for t in th['theorems']],
            'checker_cmd': 'sh coq/build.sh && coqc -Q theories UF theories/Properties/%s.v  (Coq 8.16.1, full .vo build; Print Assumptions under every theorem)' % prop,
            'trusted_base': PROPS.TRUSTED_BASE + cfg.get('trusted_base', []),
            'axioms_reported': axioms,
            'coqchk': coqchk if coqchk is not None else 'not run in this tier (thorough tier runs coqchk -o on the property file)',
            'escalated_search': searched,
            'source_fingerprints': {'functions_anchored': fpr.get('anchored', 0), 'changed': fpr.get('changed', []),
                                    'available': fpr.get('available', False), 'baseline_commit': fpr.get('baseline_commit', '')},
            'in_coq_evaluations': (incoq or {}).get('n', 0),
            'traces_validated_against_impl': n_eval if cfg.get('traces') else 0,
            'exhaustive': False,
            'exhaustive_part': cfg.get('exhaustive_part', 'none: the correspondence run samples; the universal statement is the theorem'),
            'in_coq_note': 'cases of this run re-evaluated by vm_compute inside Coq on the non-extracted model (Run/%s.run_case) and compared with the implementation' % cfg.get('run_module', 'Run' + prop),
            'evaluations': n_eval, 'distinct_nontrivial': len(distinct_nt),
            'nontrivial_total': n_nt,
            'rule': cfg.get('rule', ''),
            'samples': samples if samples else [{'note': 'no correspondence cases were run'}],
            'unsupported_by_model': n_unsup, 'unsupported_reasons': unsup_reasons,
            'input_distribution': stats,
            'correspondence': cfg.get('correspondence', ''),
            'known_findings_hit': [f.get('id') for f, _ in known_hits][:20],
            'problems': [p['what'] for p in problems],
        },
        'assumptions': cfg.get('assumptions', []),
        'wall_s': round(wall, 2),
        'violations': len(violations) + (1 if (problems and not violations) else 0),
    }
    json.dump(ev, open(os.path.join(ROOT, 'evidence', prop + '.json'), 'w'), indent=1)
    print('%s tier=%s seed=%d theorems=%d/%d cases=%d nontrivial=%d unsupported=%d violations=%d wall=%.1fs' % (
        prop, tier, seed, n_dis, n_obl, n_eval, len(distinct_nt), n_unsup, len(violations), wall))
    if not a.keep and rc_final == 0:
        shutil.rmtree(work, ignore_errors=True)
    return rc_final
