"""Per-property configuration of the check runner."""

# Axioms from the Coq standard library that a theorem may depend on (none is needed so far).
ALLOWED_AXIOMS = []

TRUSTED_BASE = [
    'Coq 8.16.1 kernel (coqc; vm_compute used in finite computations; native_compute not used)',
    'no axioms: every property theorem must print "Closed under the global context"',
    'extraction: ExtrOcamlBasic only (bool, option, list, prod, unit, sumbool mapped to OCaml types); byte, N, Z, positive, nat extracted as inductives; no Extract Constant',
    'OCaml 4.13.1 and the 30-line driver model/main.ml (byte <-> char by constructor index, asserted at start-up)',
    'hand-written Gallina model tied to /repo by this differential run only (Go harness, generators, canonicalisation, line comparison)',
]

PROPS = {
    'C16': {
        'harness': 'c16',
        'rule': 'all 2^9 subsets of the nine modifiers on an exception rule (shuffled order), through NewMatchingResult and through Engine.MatchRequest, plus the same subsets on blocking rules, extra general modifiers, and the absent-rule case; non-trivial = the rule was accepted and is an exception (or absent); distinct = distinct case lines',
        'correspondence': 'GetCosmeticOption of the implementation vs get_cosmetic_option of the model on the parsed option word',
        'assumptions': ['option word of the rule is read through the verif hook VerifFields'],
    },
}
