"""Per-property configuration of the check runner."""

# Axioms from the Coq standard library that a theorem may depend on (none is needed so far).
ALLOWED_AXIOMS = []

TRUSTED_BASE = [
    'Coq 8.16.1 kernel (coqc; vm_compute used in finite computations; native_compute not used)',
    'no axioms: every property theorem must print "Closed under the global context"',
    'extraction: ExtrOcamlBasic only (bool, option, list, prod, unit, sumbool mapped to OCaml types); byte, N, Z, positive, nat extracted as inductives; no Extract Constant',
    'OCaml 4.13.1 and the 30-line driver model/main.ml (byte <-> char by constructor index, asserted at start-up)',
    'hand-written Gallina model tied to /repo by this differential run only (Go harness, generators, canonicalisation, line comparison)',
]

PROPS = {
    'C16': {
        'harness': 'c16',
        'rule': 'all 2^9 subsets of the nine modifiers on an exception rule (shuffled order), through NewMatchingResult and through Engine.MatchRequest, plus the same subsets on blocking rules, extra general modifiers, and the absent-rule case ; modes through engines (with cosmetic rules of every kind, with a referrer under document-level exceptions), next to a cancelled (rule, $badfilter twin) pair at every position, with an $important,domain= block and two page exceptions in every order (srcpair), and pairs of exceptions with different cosmetic modifiers and modifier counts, one of them with an excluded-values-only list (pair, through the model as well); non-trivial = the rule was accepted and is an exception (or absent); distinct = distinct case lines',
        'correspondence': 'GetCosmeticOption of the implementation vs get_cosmetic_option of the model on the parsed option word',
        'assumptions': ['option word of the rule is read through the verif hook VerifFields'],
    },
    'C10': {
        'harness': 'c10',
        'rule': 'values generated around every keyword, record type, field count and numeric bound (65535/65536, signs, leading zeros, empty fields), IPv4/IPv6 syntax corner cases, host-name corner cases, wrong delimiter counts, plus byte mutations of valid values; each parsed through NewNetworkRule("||h^$dnsrewrite="+v) ; alias forms of SVCB/HTTPS (priority zero in every spelling x the root and other targets); non-trivial = the value was accepted with a rewrite (or the parser panicked); distinct = distinct values',
        'correspondence': 'canonical rendering (NewCNAME, RCode, RRType, dynamic type tag and fields of Value) of the implementation result vs the model result; the harness also evaluates the published shape predicate on the implementation result and parses twice (determinism)',
        'assumptions': ['values with bytes >= 0x80 or IPv6 zones are outside the modelled fragment (counted as unsupported; only the Go-side shape predicate applies to them)'],
    },
    'C07': {
        'harness': 'c07',
        'rule': 'pools of 110-160 distinct valid rules (feature grammar over exception, important, $domain incl. restricted-only, content types, third-party/match-case, $dnstype, $ctag incl. negated-only, $client incl. negated-only, $denyallow, badfilter, dnsrewrite, document-level modifiers; plus general grammar rules and add-one-modifier variants): IsHigherPriority on ALL ordered pairs of each pool (exhaustive per pool), the harness additionally checks irreflexivity, asymmetry, transitivity and transitivity of ties on all triples of the implementation relation; candidate lists of 1-7 rules through GetDNSBasicRule and NewMatchingResult(..).GetBasicResult; candidate lists of 1-6 rules ($important, generic, domain-specific and exception rules) together with 0-3 rules matching the page ($genericblock / $urlblock / $document exceptions, some disabled by $badfilter) through NewMatchingResult(rs, src).BasicRule, with the harness checking that the winner is an enabled candidate no enabled candidate outranks and that some rule is selected whenever one competes; non-trivial = every pairs case, select cases with >= 2 candidates',
        'correspondence': 'full pair matrix of IsHigherPriority vs is_higher_priority of the model on rules parsed by the model from the same texts; texts of the selected rules',
        'assumptions': [],
    },
    'C08': {
        'harness': 'c08',
        'rule': 'base lists of 0-6 rules (feature grammar + $dnsrewrite rules of every value shape, some already with $badfilter) with k = 0-3 extra (rule, rule$badfilter) pairs inserted at random positions, each extra rule structurally distinct (by parsed fields) from every base rule, and near-twins differing in one modifier value added to the base; observables: texts of RemoveBadfilterRules, GetDNSBasicRule, NewMatchingResult(..).GetBasicResult, DNSRewrites; the harness also recomputes them on the base list alone and flags any change; non-trivial = at least one $badfilter rule in the case',
        'correspondence': 'the four observables of the implementation vs the model on rules parsed by the model from the same texts',
        'assumptions': ['the rules of a case are handed to the result functions directly (all treated as matching); matching itself is the subject of C04/C01/C02'],
    },
    'C09': {
        'harness': 'c09',
        'rule': 'ALL sequences of length 0..4 (quick; 0..5 thorough) over an alphabet of 12 rewrite shapes (A/A-important/second A/CNAME/NXDOMAIN/MX rewrites; A, important-A, CNAME, MX, empty and important-empty exceptions), plus sampled sequences of length 0..8 over a 70-shape alphabet (A, AAAA, CNAME, RCODE, TXT, MX, SRV, HTTPS, PTR, NS, bare NOERROR x important x exception, empty exceptions, $badfilter and non-rewrite rules), one in six through DNSEngine.MatchRequest ; one sequence in 25 has 12-64 rules; non-trivial = at least one rewrite exception and at least two rules; distinct = distinct sequences',
        'correspondence': 'sequence of rule texts returned by DNSRewrites() vs dns_rewrites of the model on rules parsed from the same texts (for engine cases in the order the engine reported them)',
        'exhaustive_part': 'sequences up to the stated length over the 12-shape alphabet',
        'assumptions': [],
    },
    'C06': {
        'harness': 'c06',
        'rule': 'multisets of 0-5 rules matching the request (exception, important, $domain-specific, content type, third-party, $dnsrewrite, $stealth, document-level modifiers, $badfilter) and 0-3 rules matching the referrer (urlblock, genericblock, document, elemhide, important/domain-specific variants, plain exception/block, stealth, $badfilter), plus a targeted family where the referrer is matched by every pair of document-level exceptions; through NewMatchingResult+GetBasicResult, GetDNSBasicRule, and (one case in eight) through Engine.MatchRequest, NetworkEngine.Match and DNSEngine.MatchRequest with the rules split over two lists; the harness additionally re-evaluates every web/dns case under all permutations (up to 130 x 30) and every engine case under swapped and merged lists and flags a class change ; half of the engine cases write the rules with patterns of other shapes (scheme prefix, bare / short literals, regular expressions) so that they are filed in different lookup tables; non-trivial = at least two rules',
        'correspondence': 'verdict class and text of the selected rule, implementation vs model (for engine cases the matched rules in engine order are oracle inputs of the model)',
        'assumptions': ['$replace, $cookie, $csp and $redirect cannot be produced by the text parser (they are rejected as unknown modifiers), so those branches are covered by the theorems only'],
    },
    'C04': {
        'harness': 'c04',
        'rule': 'rules from the modifier grammar (any subset of modifiers, 1-4 values each, negations, IPv4/IPv6/CIDR/quoted-name clients, mask and regex patterns, 4 % byte-mutated) paired with 1-3 requests coupled to the rule through the shared vocabulary (host, path, fragment, source domain incl. wildcard TLD instantiations, content type, client, tag); URL requests and hostname requests; non-trivial = the implementation reports a match; distinct = distinct (rule, request) pairs',
        'correspondence': 'NetworkRule.Match of the implementation vs rule_match of the model on the rule parsed by the model and the request rebuilt by the model (PublicSuffix answers for the two hostnames are oracle inputs)',
        'assumptions': ['ASCII fragment; regex rules outside the modelled RE2 fragment are counted unsupported', 'request tags sorted (documented caller obligation)'],
    },
    'C17': {
        'harness': 'c17',
        'rule': 'URLs scheme://host[:port] followed by nothing, a path or a query, optionally a fragment (8 schemes incl. upper case and schemes with "." "+" "-"), hosts from a pool exercising multi-level public suffixes, wildcard (*.ck, *.kawasaki.jp, *.nom.br) and exception (!www.ck, !city.kawasaki.jp) PSL rules, private suffixes, unknown TLDs, single labels and IPv4 literals, upper-case variants, URLs longer than 4096 bytes; 2/3 with a source URL of the same shape; a separate stream of out-of-contract strings (userinfo, IPv6 literal, non-hierarchical, fragment after host, empty labels); hostname requests; non-trivial = a non-empty hostname was extracted; for in-contract inputs the harness also compares the implementation with net/url and publicsuffix directly',
        'correspondence': 'Hostname, Domain, SourceHostname, SourceDomain, ThirdParty, URLLowerCase of NewRequest / NewRequestForHostname vs the model (PublicSuffix answers for the hostnames are oracle inputs)',
        'assumptions': ['ASCII URLs (others counted unsupported: ToLower is Unicode-aware in Go)'],
    },
    'C18': {
        'harness': 'c18',
        'rule': 'lines IP (sp|tab)+ name ((sp|tab)+ name)* with IPv4, IPv6 and IPv4-mapped addresses, 1-8 names, optional trailing blanks, comments with or without preceding blank or tab (incl. double # after a blank and comments containing names and addresses), leading blanks; bare-domain lines; one sixth byte-mutated (outside the grammar, model comparison only); each with probe names (listed names, unlisted names, a listed name minus its last byte / plus one byte); through NewRule, HostRule.Match and DNSEngine.Match ; multi-line cases (4-11 hosts lines sharing names, later lines repeating the first name of the line before): the answer for every name against the lines that list it, then 2-16 goroutines asking one engine for different names; non-trivial = the line produced a host rule',
        'correspondence': 'kind, address, names of NewRule(line); HostRule.Match per probe; DNS engine group (v4/v6/none) per probe; for in-grammar lines the harness also compares with the names and address the generator wrote',
        'assumptions': ['IPv6 zones are outside the modelled fragment'],
    },
    'C12': {
        'harness': 'c12',
        'rule': 'single lines: every seventh line of the bundled real lists (easylist, sdn filter, hosts), cosmetic-syntax lines, hosts lines, grammar rules and degenerate short lines, one third byte-mutated, some with leading/trailing white space (CR, VT, FF) or NUL / invalid UTF-8 / multi-byte suffixes; each parsed by NewRule under recover and matched against two coupled requests under recover; lists of 3-27 such lines with blank / comment / rejected noise lines inserted, built into the three engines with and without the noise and with CRLF line endings and queried with 6 requests under recover; non-trivial = a rule was produced (line cases), every list case',
        'correspondence': 'line cases: kind, Text(), list id and match results vs the model; list cases: sequence of rule texts the storage scanner yields vs the model line-by-line parse; Go-side flags: Text()!=TrimSpace(line), any panic, engine results changed by noise or by CRLF',
        'assumptions': ['PARTIAL: the model expresses only the index/slice class of crashes (checked slice expressions); nil dereferences, map writes, stack exhaustion and panics inside regexp/netip are exercised by the harness under recover() only', 'lines with bytes >= 0x80 in network rules are outside the modelled fragment (Go-side checks still apply)'],
    },
    'C03': {
        'harness': 'c03',
        'rule': 'ALL mask patterns of 1..3 tokens (quick; 1..4 thorough) over the 14-symbol alphabet | * ^ a B . / ? ( [ \\ $ + { (every regex metacharacter, pipes in every position), plus sampled patterns of 4-9 symbols, grammar patterns (also with trailing /*, |, ^, ||) and random printable strings; with and without $match-case; each with 6-7 subject strings derived from the pattern (matching, case-swapped, deviating, separator / non-separator bytes at ^, scheme variants at ||, newline)  ; Go-side oracles: Match on a request agrees with the compiled expression, and one rule object answers URL and hostname requests in either order like fresh objects; non-trivial = the pattern compiled to a regular expression; distinct = distinct (pattern, flag, subjects)',
        'correspondence': 'status of preparePattern, source text of the compiled regexp (regexp.String()) vs the model text, and MatchString per subject vs the model matcher (which by C03_parse/C03_match equals the regex-free mask semantics)',
        'exhaustive_part': 'patterns up to the stated token bound over the 14-symbol alphabet',
        'assumptions': ['subjects and patterns ASCII'],
    },
    'C05': {
        'harness': 'c05',
        'rule': 'mask rules (grammar patterns and token soup over the 14-symbol alphabet, with and without $match-case) and regular-expression rules: every regex rule of the bundled real-world lists, a pool of hand-picked shapes, and rules from a grammar with alternation, capturing and non-capturing groups, classes, \\d \\w \\s \\b \\xHH, quantifiers * + ? {m,n}; for each rule the harness searches a counter-example among subjects derived from the pattern and 80 strings generated from the parse tree of the compiled expression (accepted but lower-cased string does not contain the shortcut); non-trivial = the rule has a non-empty shortcut',
        'correspondence': 'Shortcut of the implementation vs the model (findShortcut / findRegexpShortcut transcriptions); for regex rules the verified checker must_contain is evaluated on the model parse of the expression and the implementation shortcut: proved rules compare as sound, rules the checker cannot prove are counted undecided (unsupported_by_model), never alarms; a Go-side counter-example is a violation in every case',
        'assumptions': ['ASCII; regex rules outside the modelled RE2 fragment are undecided by the model (Go-side counter-example search still applies)', 'hostname requests: lower-case hostnames (documented caller obligation)'],
    },
    'C11': {
        'incoq_k': 8,
        'harness': 'c11',
        'rule': 'storages of 1-4 lists with distinct ids drawn from {0, 1, 2, 7, -1, -5, 1000, 65536, 123456789, 2^31-1, -2^31}, IgnoreCosmetic on/off, contents of 0-29 lines with LF or CRLF (occasionally mixed, doubled), with or without final newline, blank and comment lines, cosmetic, hosts and network rules, invalid rules, multi-byte UTF-8 and NUL inside comments/cosmetic rules, lines of 4090-9000 bytes around the 4 KiB read buffer, leading/trailing blanks; String-backed and File-backed; scan, retrieval during the file scan, retrieval after the scan in reverse order and again in order (cache) from both backings; non-trivial = at least one rule was yielded ; one content in eight has 200-700 short lines (several read blocks); retrieval in scrambled orders from three fresh file-backed storages per case; interleaved scanners; a finished scanner polled while another is live',
        'correspondence': 'scan sequence (storage index, kind, text, list id) of the implementation vs storage_scan of the model; the harness flags any difference between String and File scans, any retrieval that does not return the scanned rule, and index collisions; the model side re-checks its own retrieval on every index',
        'assumptions': ['int32 list ids, offsets < 2^31 (the property domain)', 'network-rule lines with bytes >= 0x80 make the model decline the case'],
    },
    'C01': {
        'incoq_k': 8,
        'harness': 'c01',
        'rule': 'storages of 1-3 String lists (ids incl. 0, negative and extreme int32) with 0-60 rules each: rules whose shortcut contains one of 24 pairs of djb2-colliding 5-byte windows (birthday search), shortcuts of length exactly 5 / below 5 / at the any-URL thresholds, $domain rules (incl. wildcard TLD and negated), rules without shortcut and domain (sequential table), families of rules sharing shortcut windows (histogram), exceptions, focused and grammar rules; 40 (120) requests per engine coupled to the rules, with colliding windows and windows at the very end of the URL; the harness also compares MatchAll with a linear scan over every network rule of the storage (the property own oracle); non-trivial = some request of the case matched a rule ; every engine case also runs on a file-backed engine over the same lists; one engine in twelve has rule lines of exactly 4096 / 8192 bytes (and one byte less / more) followed by other lines',
        'correspondence': 'per request, the sorted set of rule texts of NetworkEngine.MatchAll vs match_all of the model engine built by the model from the same storage with its own djb2 (also compared directly on sample strings)',
        'assumptions': ['ASCII rule lists; a request is skipped by the model if some rule match is outside the modelled fragment (Go-side linear-scan oracle still applies)'],
    },
    'C02': {
        'incoq_k': 8,
        'harness': 'c02',
        'rule': 'storages of 1-3 lists with 0-40 lines mixing hosts lines (IPv4/IPv6/mapped, 1-8 names), bare domains, 12 pairs of djb2-colliding host names (birthday search) in hosts lines and in ||name^ rules, adblock rules with browser-only modifiers (content types, $domain, third-party, match-case, popup: ignored by the DNS engine), host-level rules with important / badfilter / dnstype / client / ctag / dnsrewrite / denyallow, exceptions, and lookup-table rules of C01; 40 (120) DNS requests per engine (listed, colliding, sub-, near-miss and empty host names; client name, IP, tag, record type); the harness also computes the reference resolution by scanning every rule; non-trivial = some request of the case was matched ; one engine in twenty has 258-318 per-client rules for one five-character name (one shortcut window) plus its hosts entry',
        'correspondence': 'per request: sorted texts of NetworkRules, class of NetworkRule (none/block/allow, important), sorted texts of HostRulesV4 and HostRulesV6, matched; implementation vs dns_match of the model engine built from the same storage',
        'assumptions': ['ASCII; sorted request tags; lower-case hostnames'],
    },
    'C15': {
        'harness': 'c15',
        'rule': 'storages of 1-3 lists with 0-14 lines each: generic rules, rules with 1-3 domains (negated, wildcard TLD, single label), exceptions with the same selectors, negated-only rules, duplicate selectors, unsupported cosmetic syntax and non-cosmetic lines; 15 hostnames (listed domain, subdomain, sub-subdomain, sibling, unrelated, wildcard instantiations, no-label-boundary near misses) x all 8 flag combinations, through CosmeticEngine.Match and Engine.GetCosmeticResult; the harness also computes the reference with CosmeticRule.Match over all rules; non-trivial = some result of the case is non-empty',
        'correspondence': 'per hostname and flag set: sorted generic and specific selector sets, implementation vs cos_engine_match of the model',
        'exhaustive_part': 'the 8 combinations of the three option flags',
        'assumptions': [],
    },
    'C20': {
        'harness': 'c20',
        'rule': 'bodies over all 256 byte values: EXHAUSTIVELY every marker (</head, <link, <style, <script) at every transcoded offset 16370..16390 with 0 and 7 high bytes before it (so the original offset differs from the transcoded one), plus generated bodies: tiny and truncated markers, markers in mixed case around the end of the 16 KiB window of the transcoded text with 0-3000 high bytes before them (spread or leading), bodies without marker or with a marker only beyond the window, ordinary documents with 0-5 markers, near-markers (control bytes 0x1c/0x0f, NUL and high bytes inside a marker), "<" noise and high bytes anywhere; one third gzip-encoded, one third with a CSP header; through the verif hook proxy.VerifFilterHTML (Server.filterHTML on a real http.Response); non-trivial = a tag was injected',
        'correspondence': 'output bytes of filterHTML vs filter_html of the model (given the injection string the implementation built); the harness also compares with the reference computed on the original bytes and checks ContentLength == len(output) and that Content-Encoding is removed',
        'exhaustive_part': 'marker kind x transcoded offsets 16370..16390 x {0,7} high bytes',
        'assumptions': ['the injection string is representable in Latin-1 (it is ASCII for every hostname the template can render); gzip, HTTP plumbing and text/template are not modelled: the model sees the decompressed body and the rendered tag'],
        'shards': 8,
    },
    'C13': {
        'traces': True,
        'incoq_k': 8,
        'harness': 'c13',
        'run_module': 'RunSession',
        'rule': 'storages of 1-3 lists, String- and File-backed alternately (0-30 lines each: hosts lines, bare domains, host-level rules with important / badfilter / dnstype / client / ctag / dnsrewrite / denyallow, || rules reachable both by hostname and by URL requests, regex rules incl. an invalid one, lookup-table rules) shared by one NetworkEngine, one DNSEngine and one web Engine; histories of 30-60 (150-300 thorough) queries: URL requests (also https/ws/wss variants of hosts queried by name before), hostname requests through NetworkEngine.MatchAll, web requests with referrers through Engine.MatchRequest (verdict class, basic rule, cosmetic option), names in other letter cases and address literals between ordinary names, DNS requests through DNSEngine.MatchRequest with alternating client name / IP / tags / record type, one query in four repeating an earlier one (possibly through the other engine or with other client fields); after every third query the derived results (DNSRewrites, DNSRewritesAll, GetDNSBasicRule, NewMatchingResult.GetBasicResult, GetCosmeticOption) of older result objects are evaluated; the harness also asks every query on fresh engines and re-serialises every old result object at the end; plus straddling-block histories on 13 KB file-backed lists, Go-side web histories with colliding / case-variant referrers, and one 17 000-query history; non-trivial = some query of the history matched ; exact-gap histories (the same query again after exactly d-1 other queries, d around 2^8, 2^15, 2^16, 2^17, through the three engines, against a fresh engine); web histories with getters asked in both orders',
        'correspondence': 'per query the canonical answer (sorted rule texts; for DNS: network rules, basic-rule class, V4, V6, matched) of the implementation in history vs the STATEFUL model (cache, lazy compilation memo, request pool) run on the same history, which by C13_history_independent equals the pure answer; Go-side flags: answer differs from the fresh-engine answer, an old result object changed',
        'assumptions': ['slice aliasing between result objects is exercised on the implementation side only (re-serialisation of old results); the model treats results as values'],
    },
    'C19': {
        'traces': True,
        'incoq_k': 8,
        'harness': 'c19',
        'run_module': 'RunSession',
        'rule': 'File-backed storages of 1-3 lists (0-25 lines, same line grammar as C13) with a NetworkEngine and a DNSEngine; base histories of 6-16 (6-40 thorough) queries; for EVERY fault point k in 0..n one case: queries 1..k, the fault (RuleStorage.Close, or every list file handle replaced by a closed descriptor), queries k+1..n, then queries 1..k again (rules materialised before the fault), occasionally a second fault; all queries under recover(); after the fault the harness checks on the implementation side that every returned rule matches its request and belongs to the fault-free answer (computed on a String-backed twin); non-trivial = some query after the fault still returned rules ; after Close the harness opens decoy files of the same layout (every rule in capitals) that receive the released descriptor numbers; one history per run materialises 66 000+ further rules between the queries the oracle asks about and the fault',
        'correspondence': 'per query the canonical answer of the implementation vs the stateful model run on the same history (cache filled in the order of the code, retrieval failing after the fault unless cached); Go-side flags: panic, returned rule that does not match, returned rule outside the fault-free answer',
        'exhaustive_part': 'fault point k = 0..n of every base history',
        'assumptions': ['faults are persistent (closed storage / closed descriptor), as in the property; the model does not express panics: they are observed under recover()'],
    },
    'C14': {
        'traces': True,
        'harness': 'c14',
        'race': True,
        'rule': 'configurations of a storage (1-3 lists, String-backed or File-backed alternately, same line grammar as C13), 120 (400 thorough) requests (URL, hostname and DNS requests, a quarter repeating earlier ones) and a goroutine count in {2,3,4,8,16,32}; three passes on fresh engines with a cold cache: sequential reference; single-goroutine probe pass (TryLock / TryRLock on the real mutex at every cache read, cache write, file read and compile point: with one goroutine a missing Lock() cannot be masked by another holder); concurrent pass under the race detector with the requests partitioned over the goroutines and yields / short sleeps injected at the cache-miss, file-read, compile and pool boundaries, every answer compared with the sequential one, pooled request objects tracked for double ownership; non-trivial = some request of the configuration matched a rule ; 48 web requests from six pages under different document-level exceptions at the head of every history; pass 6: twelve freshly built engines per case whose cosmetic side (rules with 24-43 domains) is first used by up to eight goroutines released together',
        'correspondence': 'lock mode observed at each kind of shared access (r/w, or NONE when the probe finds the lock free), pool ownership and answer agreement, vs the modes the Coq protocol model requires (t_write of the region tasks T_lookup / T_insert / T_load / T_prepare the theorems are about); Go-side flags: data-race reports, concurrent answer differing from the sequential one, lock not held, pooled request shared, queries blocking forever',
        'assumptions': ['PARTIAL: the theorems are about the protocol model (locks as state, sequentially consistent memory, every interleaving of lock-delimited steps); that the code follows the protocol is checked by the probes; the Go memory model and scheduler are exercised by the race-detector run, which is search, not proof'],
    },
}
